#!/usr/bin/env python3
# C14: tool exit status and output files reflect what happened (DESIGN.md section 4, C14).
from common import *
import itertools

def mkargv(E, st, args):
    arr = st.alloc(8*(len(args)+1), 'argv')
    for i, s_ in enumerate(args):
        E.store(st, arr.add(8*i), 8, E.alloc_cstr(st, s_, f'arg{i}'))
    E.store(st, arr.add(8*len(args)), 8, NULL)
    return arr

class MainHarness:
    def __init__(self, tu, mainname):
        self.M = parse_module(build.ir(tu))
        self.main = [n for n in self.M.funcs if mainname in n][0]
    def engine(self):
        E = Engine(self.M); stubs.install(E)
        pr = lambda E_, st, a: (st.events.append(('print', a[0])), a[0])[1]
        E.prefix_stubs = [('_ZN5boost', lambda E_, st, a: a[0] if a else None), ('_ZNK5boost', lambda E_, st, a: a[0] if a else None),
                          ('_ZStls', pr), ('_ZNSolsE', pr), ('_ZSt16__ostream_insert', pr)]
        E.stubs['_ZNK7hexutil8Location3strB5cxx11Ev'] = lambda E_, st, a: (stubs.Str(E_, st, a[0]).init_local(), None)[1]
        E.stubs['_ZNKSt13runtime_error4whatEv'] = lambda E_, st, a: Ptr(('g', '.str.what'), 0)
        E.extern['.str.what'] = lambda E_, st, name: _cstr_obj(b'what')
        def vt_rt(E_, st, name):
            o = Obj(64, name); o.const = True; o.zero.append((0, 64))
            o.cells[16] = (8, Ptr(('g', '_ZNSt13runtime_errorD1Ev'), 0)); o.cells[24] = (8, Ptr(('g', '_ZNSt13runtime_errorD0Ev'), 0)); o.cells[32] = (8, Ptr(('g', '_ZNKSt13runtime_error4whatEv'), 0))
            return o
        E.extern['_ZTVSt13runtime_error'] = vt_rt; E.extern['_ZTVSt11logic_error'] = vt_rt
        def throw_logic(E_, st, a):
            eo = st.alloc(16, 'exc'); E_.store(st, eo, 8, Ptr(('g', '_ZTVSt11logic_error'), 16)); E_.store(st, eo.add(8), 8, NULL)
            raise CxxThrow(eo, Ptr(('g', '_ZTISt11logic_error'), 0))
        for n in ('_ZSt19__throw_logic_errorPKc', '_ZSt24__throw_invalid_argumentPKc', '_ZSt20__throw_out_of_rangePKc'): E.stubs[n] = throw_logic
        return E

def _cstr_obj(b):
    o = Obj(len(b) + 1, 'cstr'); o.const = True
    for i, c in enumerate(b + b'\0'): o.cells[i] = (1, c)
    return o

def throw_outcome(E, st, k):
    """k=1: hexutil::Error, k=2: std::runtime_error"""
    if k == 1:
        eo = st.alloc(48, 'exc'); st.objs[eo.obj].zero.append((0, 48)); E.store(st, eo, 8, Ptr(('g', '_ZTVN7hexutil5ErrorE'), 16))
        raise CxxThrow(eo, Ptr(('g', '_ZTIN7hexutil5ErrorE'), 0))
    eo = st.alloc(16, 'exc'); E.store(st, eo, 8, Ptr(('g', '_ZTVSt13runtime_error'), 16)); E.store(st, eo.add(8), 8, NULL)
    raise CxxThrow(eo, Ptr(('g', '_ZTISt13runtime_error'), 0))

def stage(name, record=None, ret=None, outcomes=3, kinds=None):
    """library stage cut to its outcome: returns / throws hexutil::Error / throws std::runtime_error"""
    def f(E, st, a):
        k = E.choose(st, outcomes if kinds is None else len(kinds), name)
        if kinds is not None: k = kinds[k]
        st.events.append(('stage', name, k, record(E, st, a) if record else None))
        if k: throw_outcome(E, st, k)
        return ret(E, st, a) if callable(ret) else ret
    return f

def strtoull_stub(E, st, a):
    """strtoull on a concrete digit string: value, and *endptr past the digits"""
    s_ = E.read_cstr(st, a[0]); k = 0
    while k < len(s_) and chr(s_[k]).isdigit(): k += 1
    if a[1].obj != 0: E.store(st, a[1], 8, a[0].add(k))
    return int(s_[:k] or b'0')

def run_main(H, E, argv):
    st = State(); arr = mkargv(E, st, argv)
    return E.run(H.main, [len(argv), arr], st)

def status_of(r):
    """(kind, status) of a finished main"""
    if r.kind == 'ret': return 'ret', r.val
    if r.kind == 'abort' and r.val.what == 'exit': return 'exit', r.val.code
    return r.kind, None

def outcome_str(st):
    return [(e[1], {0: 'ok', 1: 'throws hexutil::Error', 2: 'throws std::runtime_error'}[e[2]]) for e in st.events if e[0] == 'stage']

def confirm_cli(tool, argv, files, check):
    """replay with the real executable in a scratch directory; check(returncode, created_files) -> True when the defect shows"""
    import tempfile, shutil
    exe = build.tool(tool)
    d = tempfile.mkdtemp(dir=os.path.join(build.VERIF, 'build'))
    try:
        for n, c in files.items(): open(os.path.join(d, n), 'w').write(c)
        before = set(os.listdir(d))
        r = subprocess.run([exe] + argv[1:], cwd=d, capture_output=True, text=True, timeout=60, stdin=subprocess.DEVNULL)
        created = sorted(set(os.listdir(d)) - before)
        return check(r.returncode, created), {'argv': argv, 'files': files, 'returncode': r.returncode, 'created': created, 'stderr': r.stderr[:200]}
    finally:
        shutil.rmtree(d, ignore_errors=True)

GOOD_S = "BR start\nDATA 16383\nstart\nLDAC 0\nLDBM 1\nSTAI 2\nLDAC 0\nOPR SVC\n"
BAD_S = "BR nowhere\n"
GOOD_X = "val exit = 0;\nproc main() is exit(7)\n"
BAD_X = "proc main() is undefined_name(1)\n"

def check_hexasm(ck):
    H = MainHarness('main_hexasm.cpp', 'hexasm_main')
    def rec_str(E, st, a): return bytes(stubs.Str(E, st, a[1]).data())
    def rec_cstr(E, st, a): return E.read_cstr(st, a[1]) if a[1].obj != 0 else None
    shapes = [['hexasm', 'p.S'], ['hexasm', '-o', 'out.bin', 'p.S'], ['hexasm', 'p.S', '--output', 'out.bin'], ['hexasm', 'p.S', '-o'],
              ['hexasm', 'p.S', 'q.S'], ['hexasm', '--bogus', 'p.S'], ['hexasm', '--instrs', 'p.S'], ['hexasm', '--tokens', 'p.S'], ['hexasm']]
    for argv in shapes:
        E = H.engine()
        E.stubs.update({
            '_ZN6hexasm5Lexer8openFileEPKc': stage('openFile', rec_cstr, outcomes=3),
            '_ZN6hexasm5Lexer10emitTokensERSo': stage('emitTokens'),
            '_ZN6hexasm6Parser12parseProgramEv': stage('parseProgram', ret=lambda E_, st, a: [E_.store(st, a[0].add(8*i), 8, NULL) for i in range(3)] and None),
            # the constructed object is left empty (zeroed containers) so that the destructor code inlined into main runs on a valid object
            '_ZN6hexasm7CodeGenC2ERSt6vectorISt10unique_ptrINS_9DirectiveESt14default_deleteIS3_EESaIS6_EE': stage('CodeGen', ret=lambda E_, st, a: E_.memset(st, a[0], 0, 88)),
            '_ZN6hexasm7CodeGen15emitProgramTextERSo': stage('emitProgramText'),
            '_ZN6hexasm7CodeGen7emitBinENSt7__cxx1112basic_stringIcSt11char_traitsIcESaIcEEE': stage('emitBin', rec_str),
            '_ZN6hexasm7CodeGenD2Ev': stubs.s_nop,
        })
        rs = run_main(H, E, argv)
        for r in rs:
            kind, status = status_of(r)
            oc = outcome_str(r.st); threw = any(k != 'ok' for _, k in oc)
            wrote = [e[3] for e in r.st.events if e[0] == 'stage' and e[1] == 'emitBin' and e[2] == 0]
            o_idx = [i for i, x in enumerate(argv) if x in ('-o', '--output')]
            want_out = (argv[o_idx[0] + 1].encode() if o_idx and o_idx[0] + 1 < len(argv) else None) if o_idx else b'a.out'
            usage_error = len([x for x in argv[1:] if not x.startswith('-') and (argv.index(x) == 0 or argv[argv.index(x)-1] not in ('-o', '--output'))]) != 1 or '--bogus' in argv or (o_idx and want_out is None)
            listing_only = '--instrs' in argv or '--tokens' in argv
            ok = True; why = ''
            if kind not in ('ret', 'exit'): ok, why = False, f"main ends in {kind}: {r.val}"
            elif threw or usage_error:
                if status == 0: ok, why = False, "exit status 0 although an error occurred"
                if wrote: ok, why = False, "binary written although an error occurred"
            else:
                if status != 0: ok, why = False, f"exit status {status} although the source was accepted"
                if not listing_only and wrote != [want_out]: ok, why = False, f"binary written to {wrote}, expected [{want_out}]"
                if listing_only and wrote: ok, why = False, "listing mode wrote a binary"
            ck.obligation(ok)
            if not ok:
                err_stage = [n for n, k in oc if k != 'ok']
                key = f"hexasm:{' '.join(argv[1:])}:{'|'.join(f'{n}={k}' for n, k in oc if k != 'ok') or 'all ok'}:{why[:40]}"
                # replay with the real tool: an unknown label makes CodeGen throw hexutil::Error
                confirmed, detail = True, {}
                if err_stage and 'hexutil::Error' in dict(oc).get(err_stage[0], ''):
                    confirmed, detail = confirm_cli('hexasm', [a if a != 'p.S' else 'p.S' for a in argv], {'p.S': BAD_S, 'q.S': GOOD_S}, lambda rc, created: rc == 0 or bool(created))
                    key = f"hexasm:exit0-after-Error"
                elif kind not in ('ret', 'exit'):
                    confirmed, detail = confirm_cli('hexasm', argv, {'p.S': GOOD_S, 'q.S': GOOD_S}, lambda rc, created: rc < 0 or rc > 128)
                ck.violation(key, f"hexasm {' '.join(argv[1:])}: stages {oc}: {why}", ck.replay_file(key, detail), confirmed)
        ck.engine(E, 'main of hexasm.cpp: ' + ' '.join(argv[1:]))
    ck.sample({'tool': 'hexasm', 'argv_shapes': shapes[:4], 'stage_outcomes': 'returns | throws hexutil::Error | throws std::runtime_error'})

def check_xcmp(ck, tool='xcmp'):
    H = MainHarness('main_xcmp.cpp' if tool == 'xcmp' else 'main_xrun.cpp', tool + '_main')
    RUN = [n for n in H.M.funcs if n.startswith('_ZN4xcmp6Driver3runE')][0]
    rv = z3.BitVec('program_exit_value', 32)
    def rec_run(E, st, a):
        # run(this, action, const string& input, bool inputIsFilename, string outputBinaryFilename, bool reportMemoryInfo)
        return dict(action=a[1], input=bytes(stubs.Str(E, st, a[2]).data()), isfile=a[3], out=bytes(stubs.Str(E, st, a[4]).data()))
    if tool == 'xcmp':
        shapes = [['xcmp', 'p.x'], ['xcmp', '-o', 'out.bin', 'p.x'], ['xcmp', 'p.x', '--output', 'out.bin'], ['xcmp', 'p.x', '-o'], ['xcmp', 'p.x', 'q.x'],
                  ['xcmp', '--bogus', 'p.x'], ['xcmp', '-S', 'p.x'], ['xcmp']]
    else:
        shapes = [['xrun', 'p.x'], ['xrun', '-t', 'p.x'], ['xrun', 'p.x', '--max-cycles', '10'], ['xrun', 'p.x', 'q.x'], ['xrun', '--bogus', 'p.x']]
    for argv in shapes:
        E = H.engine()
        E.stubs[RUN] = stage('Driver::run', rec_run, ret=0)
        if tool == 'xrun':
            E.stubs['_ZN6hexsim9ProcessorC2ERSiRSom'] = lambda E_, st, a: st.events.append(('sim-construct', a[3]))
            E.stubs['_ZN6hexsim9ProcessorD2Ev'] = stubs.s_nop
            E.stubs['_ZN6hexsim9Processor4loadEPKcb'] = stage('Processor::load', lambda E_, st, a: E_.read_cstr(st, a[1]), outcomes=1)
            E.stubs['_ZN6hexsim9Processor3runEv'] = stage('Processor::run', ret=rv, outcomes=1)
            E.stubs['strtoull'] = strtoull_stub
            E.stubs['__errno_location'] = lambda E_, st, a: E_.alloc_bytes(st, [0, 0, 0, 0], 'errno')
        rs = run_main(H, E, argv)
        for r in rs:
            kind, status = status_of(r)
            oc = outcome_str(r.st); threw = any(k != 'ok' for _, k in oc)
            runs = [e[3] for e in r.st.events if e[0] == 'stage' and e[1] == 'Driver::run']
            o_idx = [i for i, x in enumerate(argv) if x in ('-o', '--output')]
            want_out = ((argv[o_idx[0] + 1].encode() if o_idx[0] + 1 < len(argv) else None) if o_idx else (b'a.out' if tool == 'xcmp' else None))
            files = [x for i, x in enumerate(argv[1:], 1) if not x.startswith('-') and argv[i-1] not in ('-o', '--output', '--max-cycles')]
            usage_error = len(files) != 1 or '--bogus' in argv or (o_idx and want_out is None)
            ok = True; why = ''
            if kind not in ('ret', 'exit'): ok, why = False, f"main ends in {kind}: {r.val}"
            elif threw or usage_error:
                if is_c(status) and status == 0 or not is_c(status): ok, why = False, "exit status 0 although an error occurred"
            else:
                if not runs: ok, why = False, "compiler not run"
                else:
                    q = runs[0]
                    if q['input'] != files[0].encode(): ok, why = False, f"compiler run on {q['input']}, expected {files[0]}"
                    elif not (is_c(q['isfile']) and q['isfile'] == 1): ok, why = False, f"the output file name is passed in the inputIsFilename parameter ({q['isfile']})"
                    elif tool == 'xcmp' and q['out'] != want_out: ok, why = False, f"binary written to {q['out']!r}, expected {want_out!r} (the name given with -o, default a.out)"
                if ok and tool == 'xcmp' and status != 0: ok, why = False, f"exit status {status} although the source was accepted"
                if ok and tool == 'xrun':
                    loads = [e[3] for e in r.st.events if e[0] == 'stage' and e[1] == 'Processor::load']
                    if loads != [runs[0]['out']]: ok, why = False, f"simulator loads {loads}, compiler wrote {runs[0]['out']}"
                    else:
                        okp, m = ck.prove(E, r.st, bv(status, 32) == rv, "xrun returns the program's exit value")
                        if not okp: ok, why = False, f"exit status {m.eval(bv(status, 32))} although the program's exit value is {model_int(m, rv)}"
            ck.obligation(ok)
            if not ok:
                key = f"{tool}:{why[:60]}"
                confirmed, detail = True, {}
                if 'binary written to' in why:
                    confirmed, detail = confirm_cli('xcmp', argv, {'p.x': GOOD_X}, lambda rc, created: 'out.bin' not in created)
                    key = "xcmp:-o ignored"
                elif tool == 'xrun' and 'exit value' in why:
                    confirmed, detail = confirm_cli('xrun', ['xrun', 'p.x'], {'p.x': GOOD_X}, lambda rc, created: rc != 7)
                    key = "xrun:exit status ignores program"
                elif tool == 'xrun' and 'error occurred' in why and any('hexutil::Error' in k for _, k in oc):
                    confirmed, detail = confirm_cli('xrun', ['xrun', 'p.x'], {'p.x': BAD_X}, lambda rc, created: rc == 0)
                    key = "xrun:exit0-after-compile-error"
                elif 'inputIsFilename' in why:
                    confirmed, detail = confirm_cli('xcmp', ['xcmp', '-o', 'out.bin', 'p.x'], {'p.x': GOOD_X}, lambda rc, created: 'out.bin' not in created)
                    key = "xcmp:-o ignored"
                elif kind not in ('ret', 'exit'):
                    confirmed, detail = confirm_cli(tool, argv, {'p.x': GOOD_X, 'q.x': GOOD_X}, lambda rc, created: rc < 0 or rc > 128)
                ck.violation(key, f"{tool} {' '.join(argv[1:])}: stages {oc}: {why}", ck.replay_file(key, detail), confirmed)
        ck.engine(E, f'main of {tool}.cpp: ' + ' '.join(argv[1:]))
    ck.sample({'tool': tool, 'argv_shapes': shapes[:4]})

def zero_rest(E, st, p):
    """stub of a constructor: leave an all-zero (empty) object so that inlined destructor code runs on valid containers"""
    o = st.wobj(p.obj); o.zero.append((p.off, o.size)); return None

def check_xcmp_deep(ck, tool='xcmp'):
    """xcmp::Driver::run itself is executed (not cut): its stages - openFile, parseProgram, each AST pass (Program::accept),
    LowerDirectives, OptimiseDirectives, hexasm::CodeGen, emitBin - are cut to outcomes, and every creation of a file is an event.
    No file may be created or written unless every fallible stage succeeded, and then only by emitBin with the right name."""
    H = MainHarness('main_xcmp.cpp' if tool == 'xcmp' else 'main_xrun.cpp', tool + '_main')
    M = H.M
    def rec_str(E, st, a): return bytes(stubs.Str(E, st, a[1]).data())
    def file_event(kind):
        def f(E, st, a):
            nm = None
            for x in a[1:3]:
                if isinstance(x, Ptr) and x.obj != 0:
                    try: nm = bytes(stubs.Str(E, st, x).data()); break
                    except Exception:
                        try: nm = E.read_cstr(st, x); break
                        except Exception: pass
            st.events.append(('file-create', kind, nm)); return a[0] if kind.endswith('open') else None
        return f
    shapes = [['xcmp', 'p.x'], ['xcmp', '-o', 'out.bin', 'p.x'], ['xcmp', '-S', 'p.x']] if tool == 'xcmp' else [['xrun', 'p.x']]
    rv = z3.BitVec('program_exit_value', 32)
    for argv in shapes:
        E = H.engine()
        def parse_ret(E_, st, a):
            prog = st.alloc(64, 'Program'); st.objs[prog.obj].zero.append((8, 64))
            E_.store(st, prog, 8, Ptr(('g', '_ZTVN4xcmp7ProgramE'), 16)); E_.store(st, a[0], 8, prog); return None
        E.stubs.update({
            '_ZN4xcmp5Lexer8openFileEPKc': stage('openFile'),
            '_ZN4xcmp5Lexer8openFileERKNSt7__cxx1112basic_stringIcSt11char_traitsIcESaIcEEE': stage('openFile'),
            '_ZN4xcmp5Lexer10emitTokensERSo': stage('emitTokens'),
            '_ZN4xcmp6Parser12parseProgramEv': stage('parseProgram', ret=parse_ret),
            '_ZN4xcmp7Program6acceptEPNS_10AstVisitorE': stage('AST pass'),
            '_ZN4xcmp7ProgramD0Ev': stubs.s_nop, '_ZN4xcmp7ProgramD2Ev': stubs.s_nop, '_ZN4xcmp7ProgramD1Ev': stubs.s_nop,
            '_ZN4xcmp15LowerDirectivesC2ERNS_11SymbolTableERNS_7CodeGenE': stage('LowerDirectives', ret=lambda E_, st, a: zero_rest(E_, st, a[0])),
            '_ZN4xcmp15LowerDirectivesD2Ev': stubs.s_nop,
            '_ZN4xcmp18OptimiseDirectivesC2ERNS_11SymbolTableERNS_10CodeBufferE': stage('OptimiseDirectives', ret=lambda E_, st, a: zero_rest(E_, st, a[0])),
            '_ZN4xcmp18OptimiseDirectivesD2Ev': stubs.s_nop,
            '_ZN6hexasm7CodeGenC2ERSt6vectorISt10unique_ptrINS_9DirectiveESt14default_deleteIS3_EESaIS6_EE': stage('hexasm::CodeGen', ret=lambda E_, st, a: E_.memset(st, a[0], 0, 88)),
            '_ZN6hexasm7CodeGenD2Ev': stubs.s_nop,
            '_ZN6hexasm7CodeGen15emitProgramTextERSo': stage('emitProgramText'),
            '_ZN6hexasm7CodeGen7emitBinENSt7__cxx1112basic_stringIcSt11char_traitsIcESaIcEEE': stage('emitBin', rec_str),
            '_ZN4xcmp10CodeBuffer10emitInstrsERSo': stage('emitInstrs'),
            '_ZN4xcmp7CodeGenD2Ev': stubs.s_nop,
        })
        for nm in ('_ZNSt14basic_ofstreamIcSt11char_traitsIcEEC1ERKNSt7__cxx1112basic_stringIcS1_SaIcEEESt13_Ios_Openmode', '_ZNSt13basic_fstreamIcSt11char_traitsIcEEC1ERKNSt7__cxx1112basic_stringIcS1_SaIcEEESt13_Ios_Openmode',
                   '_ZNSt14basic_ofstreamIcSt11char_traitsIcEEC1EPKcSt13_Ios_Openmode', '_ZNSt13basic_fstreamIcSt11char_traitsIcEEC1EPKcSt13_Ios_Openmode'):
            E.stubs[nm] = file_event('stream constructor')
        for nm in ('_ZNSt13basic_filebufIcSt11char_traitsIcEE4openEPKcSt13_Ios_Openmode', '_ZNSt14basic_ofstreamIcSt11char_traitsIcEE4openERKNSt7__cxx1112basic_stringIcS1_SaIcEEESt13_Ios_Openmode',
                   '_ZNSt13basic_fstreamIcSt11char_traitsIcEE4openERKNSt7__cxx1112basic_stringIcS1_SaIcEEESt13_Ios_Openmode'):
            E.stubs[nm] = file_event('open')
        E.stubs['_ZNKSt13basic_filebufIcSt11char_traitsIcEE7is_openEv'] = lambda E_, st, a: 1
        E.stubs['_ZNKSt12__basic_fileIcE7is_openEv'] = lambda E_, st, a: 1
        for nm in ('_ZNSt14basic_ofstreamIcSt11char_traitsIcEED1Ev', '_ZNSt13basic_fstreamIcSt11char_traitsIcEED1Ev', '_ZNSt14basic_ofstreamIcSt11char_traitsIcEE5closeEv', '_ZNSt13basic_fstreamIcSt11char_traitsIcEE5closeEv',
                   '_ZNSt13basic_filebufIcSt11char_traitsIcEEC1Ev', '_ZNSt13basic_filebufIcSt11char_traitsIcEE5closeEv', '_ZNSt9basic_iosIcSt11char_traitsIcEE4initEPSt15basic_streambufIcS1_E',
                   '_ZNSt9basic_iosIcSt11char_traitsIcEE5clearESt12_Ios_Iostate', '_ZNSt8ios_baseC2Ev'):
            E.stubs.setdefault(nm, stubs.s_nop)
        if tool == 'xrun':
            E.stubs['_ZN6hexsim9ProcessorC2ERSiRSom'] = lambda E_, st, a: st.events.append(('sim-construct', a[3]))
            E.stubs['_ZN6hexsim9ProcessorD2Ev'] = stubs.s_nop
            E.stubs['_ZN6hexsim9Processor4loadEPKcb'] = stage('Processor::load', lambda E_, st, a: E_.read_cstr(st, a[1]), outcomes=1)
            E.stubs['_ZN6hexsim9Processor3runEv'] = stage('Processor::run', ret=rv, outcomes=1)
        for r in run_main(H, E, argv):
            kind, status = status_of(r); oc = outcome_str(r.st); threw = any(k != 'ok' for _, k in oc)
            creates = [e for e in r.st.events if e[0] == 'file-create']
            wrote = [e[3] for e in r.st.events if e[0] == 'stage' and e[1] == 'emitBin' and e[2] == 0]
            ok = True; why = ''
            if kind not in ('ret', 'exit'): ok, why = False, f"main ends in {kind}: {r.val}"
            elif threw:
                if creates: ok, why = False, f"output file {creates[0][2]} is created ({creates[0][1]}) although the source is rejected later: a new empty binary is left behind"
                elif wrote: ok, why = False, "binary written although a stage failed"
                elif is_c(status) and status == 0: ok, why = False, "exit status 0 although a stage failed"
            ck.obligation(ok)
            if not ok:
                key = f"{tool}:deep:{why[:50]}"
                confirmed, detail = True, {}
                if 'left behind' in why:
                    confirmed, detail = confirm_cli('xcmp', ['xcmp', '-o', 'fresh.bin', 'p.x'], {'p.x': BAD_X}, lambda rc, created: 'fresh.bin' in created or rc == 0)
                    key = f"{tool}:file created before the source is accepted"
                ck.violation(key, f"{tool} {' '.join(argv[1:])}: stages {oc}: {why}", ck.replay_file(key, detail), confirmed)
        ck.engine(E, f'main of {tool}.cpp + xcmp::Driver::run: ' + ' '.join(argv[1:]))
    ck.sample({'tool': tool, 'mode': 'Driver::run executed, its stages cut', 'argv_shapes': shapes})

def check_hexsim(ck):
    H = MainHarness('main_hexsim.cpp', 'hexsim_main')
    rv = z3.BitVec('program_exit_value', 32)
    for argv in (['hexsim', 'a.out'], ['hexsim', '-t', 'a.out'], ['hexsim', 'a.out', '--max-cycles', '5'], ['hexsim', '-d', 'a.out'], ['hexsim', 'a.out', 'b.out'], ['hexsim']):
        E = H.engine()
        E.stubs['_ZN6hexsim9ProcessorC2ERSiRSom'] = lambda E_, st, a: st.events.append(('sim-construct', a[3]))
        E.stubs['_ZN6hexsim9ProcessorD2Ev'] = stubs.s_nop
        E.stubs['_ZN6hexsim9Processor4loadEPKcb'] = stage('Processor::load', lambda E_, st, a: E_.read_cstr(st, a[1]), outcomes=1)
        E.stubs['_ZN6hexsim9Processor3runEv'] = stage('Processor::run', ret=rv, kinds=[0, 2])      # hexsim.cpp does not know hexutil::Error
        E.stubs['strtoull'] = strtoull_stub
        E.stubs['__errno_location'] = lambda E_, st, a: E_.alloc_bytes(st, [0, 0, 0, 0], 'errno')
        for r in run_main(H, E, argv):
            kind, status = status_of(r); oc = outcome_str(r.st); threw = any(k != 'ok' for _, k in oc)
            files = [x for i, x in enumerate(argv[1:], 1) if not x.startswith('-') and argv[i-1] != '--max-cycles']
            ok = True; why = ''
            if kind not in ('ret', 'exit'): ok, why = False, f"main ends in {kind}: {r.val}"
            elif len(files) != 1 or threw:
                if is_c(status) and status == 0: ok, why = False, "exit status 0 although an error occurred"
            elif '-d' in argv:
                if status != 0: ok, why = False, "dump mode returns non-zero"
            else:
                okp, m = ck.prove(E, r.st, bv(status, 32) == rv, "hexsim returns run()'s value")
                if not okp: ok, why = False, f"exit status {m.eval(bv(status, 32))} but run() returned {model_int(m, rv)}"
            ck.obligation(ok)
            if not ok: ck.violation(f"hexsim:{why[:50]}", f"hexsim {' '.join(argv[1:])}: stages {oc}: {why}", None)
        ck.engine(E, 'main of hexsim.cpp: ' + ' '.join(argv[1:]))

def hexasm_rejections(ck):
    """every way hexasm rejects a program after parsing: the exception must come before the output file is opened"""
    import layrun
    from laylib import K_LABEL, K_DATA, K_IMM, K_REL, K_ABS, K_OPR, K_FUNC
    shapes = [
        [(K_REL, 'BR', 0)],                                                        # unknown label (relative)
        [(K_ABS, 'LDAM', 0)],                                                      # unknown label (absolute)
        [(K_OPR, 'ADD', 0), (K_LABEL, None, 0), (K_ABS, 'LDAM', 0)],               # absolute reference to a label at byte 1
        [(K_IMM, 'LDAC', None), (K_LABEL, None, 0), (K_ABS, 'LDBC', 0)],           # ... at a symbolic byte offset 1..8
        [(K_ABS, 'STAM', 0), (K_OPR, 'ADD', 0), (K_LABEL, None, 0), (K_OPR, 'SVC', 0)],   # forward, unaligned
        [(K_LABEL, None, 0), (K_DATA, None, None), (K_ABS, 'LDAM', 0), (K_REL, 'BR', 1)], # good reference, then an unknown label
        [(K_OPR, 'LDAM', 0)],                                                      # invalid OPR operand
        [(K_LABEL, None, 0), (K_DATA, None, None), (K_ABS, 'LDAM', 0)],            # accepted (control)
    ]
    layrun.run_family(ck, 'C14', only=shapes)

def main():
    ck = Check('C14', 'other')
    check_hexasm(ck); check_xcmp(ck, 'xcmp'); check_xcmp(ck, 'xrun'); check_hexsim(ck)
    check_xcmp_deep(ck, 'xcmp')
    hexasm_rejections(ck)
    ck.assume("the four main() functions are executed from their IR with C++ exception handling modelled; the library stages they call (Lexer::openFile, Parser::parseProgram, hexasm::CodeGen, emitBin, "
              "xcmp::Driver::run, hexsim::Processor::load/run) are cut to an outcome chosen by the engine: returns / throws hexutil::Error / throws std::runtime_error; Processor::run's value is a 32-bit symbol",
              "argv shapes are enumerated (file only; -o/--output before and after the file; -o last; two files; unknown option; listing modes); the solver's share is the outcome vector and the exit value",
              "xcmp::Driver::run is additionally executed itself with its inner stages (openFile, parseProgram, every AST pass, LowerDirectives, OptimiseDirectives, hexasm::CodeGen, emitBin) cut to outcomes and every stream constructor/open an event: no file is created unless all stages succeeded",
              "hexasm's own rejections after parsing (unknown label, absolute reference to an unaligned label, invalid OPR operand) run through the real directive constructors, CodeGen and emitBin with the "
              "file stream an event sink: on every path that throws, no output file has been created or truncated (also decided in C10 as 'partial-output'); truncation of the status to 8 bits by the host is outside",
              "diagnostic text (boost::format, operator<<) is cut: that something is printed is an event, its wording is outside")
    ck.crosscheck()
    ck.finish("Control- and data-flow of the four mains under every combination of stage outcomes and argv shape: exit status 0 iff no stage failed and the usage is valid, the file name given with -o "
              "(default a.out) is the one handed to emitBin / Driver::run, nothing is written after a failure, xrun loads what the compiler wrote and xrun/hexsim return run()'s value (proved by z3 for the symbolic value).")

if __name__ == '__main__':
    from lib.report import guarded
    guarded(main)
