#!/usr/bin/env python3
# C09: xcmp accepts or cleanly rejects every input (DESIGN.md section 13).
# The whole compiler runs in the engine (X family). Inputs: (B) every byte string up to N bytes, all bytes symbolic, through the
# real Lexer; (T) every token sequence up to K tokens (Lexer::readToken replaced by an arbitrary token source: symbolic
# token kinds - the parser's own switches fork on them -, identifiers from a pool, symbolic numbers); (S) every statement of up
# to K tokens as the body of main in a context that declares a val, a variable, an array, a function and a procedure;
# (P) families of ill-formed and unusual programs. Every path must end in an emitted image or in an exception derived from
# std::exception raised before anything was emitted; null / out-of-bounds accesses, indeterminate reads, signed overflow and
# other UB, foreign exceptions and budget exhaustion are findings, replayed on an ASan+UBSan build of the real xcmp.
from xfull import *
import hashlib
import re as _re

def ill_formed():
    P = {
     'undeclared-var': "val exit = 0; proc main() is exit(x)", 'undeclared-assign': "val exit = 0; proc main() is x := 1",
     'undeclared-call': "val exit = 0; proc main() is foo(1)", 'undeclared-func': "val exit = 0; proc main() is exit(foo(1))",
     'undeclared-array': "val exit = 0; proc main() is exit(t[1])", 'undeclared-array-assign': "val exit = 0; proc main() is t[1] := 2",
     'redeclared-global': "val exit = 0; var x; var x; proc main() is exit(0)", 'redeclared-proc': "val exit = 0; proc p() is skip proc p() is skip proc main() is exit(0)",
     'redeclared-local': "val exit = 0; proc main() is var a; var a; exit(0)", 'redeclared-formal': "val exit = 0; proc p(val a, val a) is skip proc main() is p(1, 2)",
     'var-as-proc': "val exit = 0; var x; proc main() is x(1)", 'var-as-func': "val exit = 0; var x; proc main() is exit(x(1))",
     'array-as-scalar': "val exit = 0; array t[3]; proc main() is exit(t)", 'array-assign-whole': "val exit = 0; array t[3]; proc main() is t := 1",
     'scalar-as-array': "val exit = 0; var x; proc main() is exit(x[1])", 'scalar-as-array-assign': "val exit = 0; var x; proc main() is x[1] := 2",
     'proc-as-var': "val exit = 0; proc p() is skip proc main() is exit(p)", 'assign-to-proc': "val exit = 0; proc p() is skip proc main() is p := 1",
     'proc-as-array': "val exit = 0; proc p() is skip proc main() is exit(p[0])", 'arity-few': "val exit = 0; proc p(val a, val b) is skip proc main() is p(1)",
     'arity-many': "val exit = 0; proc p(val a) is skip proc main() is p(1, 2, 3)", 'arity-func-few': "val exit = 0; func f(val a, val b) is return a proc main() is exit(f(1))",
     'arity-zero-given': "val exit = 0; proc p() is skip proc main() is p(1)", 'no-main': "val exit = 0; proc p() is skip",
     'main-with-args': "val exit = 0; proc main(val a) is exit(a)", 'main-is-func': "val exit = 0; func main() is return 0", 'main-is-var': "val exit = 0; var main;",
     'empty': "", 'only-decls': "val exit = 0; var x;", 'array-size-var': "val exit = 0; var n; array t[n]; proc main() is exit(0)",
     'array-size-zero': "val exit = 0; array t[0]; proc main() is exit(0)", 'array-size-neg': "val exit = 0; array t[0 - 1]; proc main() is exit(0)",
     'array-size-huge': "val exit = 0; array t[300000]; proc main() is exit(0)", 'val-nonconst': "val exit = 0; var g; val v = g; proc main() is exit(v)",
     'val-self': "val exit = 0; val v = v; proc main() is exit(v)", 'val-call': "val exit = 0; func f() is return 1 val v = f(); proc main() is exit(v)",
     'syscall-invalid': "proc main() is 7(1)", 'syscall-neg': "val bad = 0 - 1; proc main() is bad(1)", 'syscall-big': "val bad = 100000; proc main() is bad(1)",
     'syscall-as-value': "val exit = 0; val three = 3; proc main() is exit(three(1))", 'string-plus': 'val exit = 0; proc main() is exit("ab" + 1)',
     'string-assign-global': 'val exit = 0; var s; proc main() is { s := "x"; exit(0) }', 'string-index': 'val exit = 0; proc main() is exit("abc"[1])',
     'eq-in-actual': "val exit = 0; func f(val x) is return x proc main() is 0(f(1) = 2)", 'call-in-call': "val exit = 0; func f(val x) is return x proc main() is exit(f(f(f(1))))",
     'formal-array-as-scalar': "val exit = 0; array t[2]; func f(array a) is return a proc main() is exit(f(t))",
     'scalar-to-array-formal': "val exit = 0; func f(array a) is return a[0] proc main() is exit(f(3))", 'array-to-val-formal': "val exit = 0; array t[2]; func f(val a) is return a proc main() is exit(f(t))",
     'proc-formal': "val exit = 0; proc ap(proc q) is q() proc hi() is skip proc main() is ap(hi)", 'func-formal': "val exit = 0; func ap(func q) is return q(1) func id(val x) is return x proc main() is exit(ap(id))",
     'proc-formal-wrong': "val exit = 0; proc ap(proc q) is q() proc main() is ap(3)", 'return-missing-expr': "val exit = 0; func f() is return proc main() is exit(f())",
     'unterminated-string': 'val exit = 0; proc main() is exit("abc', 'unterminated-char': "val exit = 0; proc main() is exit('a", 'bad-escape': "val exit = 0; proc main() is exit('\\q')",
     'huge-number': "val exit = 0; proc main() is exit(99999999999999999999999)", 'hex-empty': "val exit = 0; proc main() is exit(#)",
     'deep-parens': "val exit = 0; proc main() is exit(" + "(" * 60 + "1" + ")" * 60 + ")", 'deep-neg': "val exit = 0; proc main() is exit(" + "-" * 100 + "1)",
     'deep-not': "val exit = 0; proc main() is exit(" + "~" * 100 + "1)", 'long-ident': "val exit = 0; var " + "x" * 3000 + "; proc main() is exit(0)",
     'keyword-as-name': "val exit = 0; var while; proc main() is exit(0)", 'local-array': "val exit = 0; proc main() is array t[3]; exit(0)",
     'nested-proc': "val exit = 0; proc main() is proc q() is skip exit(0)", 'stray-semicolons': "val exit = 0;; proc main() is exit(0)",
     'trailing-garbage': "val exit = 0; proc main() is exit(0) }", 'binary-bytes': "val exit = 0; proc main() is exit(0)\x00\x01\xff",
     'assign-call-result': "val exit = 0; func f() is return 1 proc main() is f() := 2", 'subscript-of-call': "val exit = 0; func f() is return 1 proc main() is exit(f()[0])",
     'neg-of-string': 'val exit = 0; proc main() is exit(-"a")', 'while-nonbool': "val exit = 0; proc main() is while 5 do exit(0)", 'return-at-top': "val exit = 0; proc main() is return 1",
     'stop-in-func-expr': "val exit = 0; func f() is stop proc main() is exit(f())",
     'many-args': "val exit = 0; func f(" + ", ".join(f"val a{i}" for i in range(40)) + ") is return a0 proc main() is exit(f(" + ", ".join(str(i) for i in range(40)) + "))",
     'many-procs': "val exit = 0; " + " ".join(f"proc p{i}() is skip" for i in range(150)) + " proc main() is exit(0)",
     'comment-to-eof': "val exit = 0; proc main() is exit(7)\n| the program ends here", 'comment-only': "|", 'comment-then-eof-after-code': "proc main() is skip |",
     'local-val-subscript': "val exit = 0; proc main() is val v = 2; exit(v[0])", 'local-val-subscript-assign': "val exit = 0; proc main() is val v = 2; v[0] := 1",
     'redeclared-proc-temps': "var g; proc p() is g := g + (g + (g + g)) proc p() is skip proc main() is p()",
     'fold-overflow-plus': "val exit = 0; proc main() is exit(2147483647 + 1)", 'fold-overflow-minus': "val exit = 0; proc main() is exit((0 - 2147483647) - 2)",
     'fold-overflow-neg': "val exit = 0; val m = #80000000; proc main() is exit(-m)", 'fold-overflow-val': "val big = 2147483647; val more = big + big; proc main() is 0(more)",
     'array-size-overflow': "val exit = 0; array t[2147483647]; proc main() is exit(0)", 'array-size-fold-overflow': "val exit = 0; array t[2147483647 + 2]; proc main() is exit(0)",
     'const-pool-edge': "val exit = 0; proc main() is exit(65535 + 65536)", 'frame-large': "val exit = 0; proc main() is " + " ".join(f"var v{i};" for i in range(300)) + " exit(0)",
    }
    return [('ill:' + k, v) for k, v in P.items()]

def matrix_programs():
    """systematic families: every kind of declaration x every way of using a name; every pair of kinds declared under one name
    (globally twice, and globally + locally), each with a use"""
    out = []
    USES = {'read': "exit(N)", 'assign': "N := 1", 'sub-read': "exit(N[1])", 'sub-assign': "N[1] := 2", 'call-stmt': "N(1)", 'call-expr': "exit(N(1) + 1)",
            'val-actual': "exit(idv(N))", 'array-actual': "exit(ida(N))", 'proc-actual': "app(N)", 'neg': "exit(-N)", 'cond': "if N then exit(1) else exit(2)"}
    HEADX = "val exit = 0; func idv(val a) is return a func ida(array a) is return a[0] proc app(proc q) is q(1) "
    GLOBAL = {'val': "val N = 3;", 'var': "var N;", 'array': "array N[3];", 'proc': "proc N(val a) is skip", 'func': "func N(val a) is return a",
              'proc-temps': "var gg; proc N(val a) is gg := gg + (gg + (gg + a))", 'func-locals': "func N(val a) is var b; { b := a + (a + a); return b }"}
    LOCAL = {'local-val': "val N = 3;", 'local-var': "var N;"}
    FORMAL = {'val-formal': "val N", 'array-formal': "array N", 'proc-formal': "proc N", 'func-formal': "func N"}
    for kn, decl in GLOBAL.items():
        for un, use in USES.items():
            pre = decl + " " if decl.endswith(';') else ""; post = "" if decl.endswith(';') else decl + " "
            out.append((f"matrix:{kn}:{un}", (HEADX.replace('val exit = 0;', 'val exit = 0; ' + pre) + post + "proc main() is " + use).replace('N', 'nm')))
    for kn, decl in LOCAL.items():
        for un, use in USES.items():
            out.append((f"matrix:{kn}:{un}", (HEADX + f"proc main() is {decl} " + use).replace('N', 'nm')))
    for kn, formal in FORMAL.items():
        for un, use in USES.items():
            out.append((f"matrix:{kn}:{un}", (HEADX + f"proc user({formal}) is " + use + " proc main() is skip").replace('N', 'nm')))
    for un, use in USES.items():
        out.append((f"matrix:undeclared:{un}", (HEADX + "proc main() is " + use).replace('N', 'nm')))
    # one name, two declarations
    for k1, d1 in GLOBAL.items():
        for k2, d2 in GLOBAL.items():
            semis = ' '.join(d for d in (d1, d2) if d.endswith(';')); defs = ' '.join(d for d in (d1, d2) if not d.endswith(';'))
            for un in ('read', 'call-stmt', 'sub-read', 'assign'):
                out.append((f"matrix:twice:{k1}+{k2}:{un}", ("val exit = 0; " + semis + " " + defs + " proc main() is " + USES[un]).replace('N', 'nm')))
        for kl, dl in LOCAL.items():
            semis = d1 if d1.endswith(';') else ''; defs = '' if d1.endswith(';') else d1
            for un in ('read', 'call-stmt', 'sub-read', 'assign'):
                out.append((f"matrix:shadow:{k1}+{kl}:{un}", ("val exit = 0; " + semis + " " + defs + f" proc main() is {dl} " + USES[un]).replace('N', 'nm')))
    return out

def mutants(tier, seed):
    """token-level mutations of the skeleton programs: one token deleted, duplicated, or replaced by another token of the program"""
    import random
    rnd = random.Random(seed + 11); out = []
    base = [(n, s) for n, s in xgen.programs('quick', seed) if n.startswith('skeleton:')]
    per = 3 if tier == 'quick' else 40
    for n, s in base:
        toks = _re.findall(r'"[^"]*"|\'[^\']*\'|[A-Za-z_][A-Za-z0-9_]*|\d+|#[0-9A-Fa-f]+|:=|~=|<=|>=|\S', s)
        if len(toks) < 4: continue
        for j in range(per):
            t = list(toks); i = rnd.randrange(len(t)); op = rnd.randrange(3)
            if op == 0: del t[i]
            elif op == 1: t.insert(i, t[i])
            else: t[i] = t[rnd.randrange(len(t))]
            out.append((f"mutant:{n}:{j}", ' '.join(t)))
    return out

# ---------------------------------------------------------------- workers
_X = None
def _job(job):
    global _X
    kind = job[0]
    try:
        if _X is None: _X = XTokens()
        X = _X; t0 = time.time()
        if kind == 'bytes':
            n = job[1]; first = job[2]
            chars = [z3.BitVec(f'c{i}', 8) for i in range(n)]
            E = X.engine(chars); E.max_paths = 400000; E.deadline = time.time() + 3000; E.max_steps = 3_000_000      # inputs of a few bytes compile in < 100 000 steps
            st = State(); st.pc = [z3.And(z3.UGE(chars[0], first[0]), z3.ULE(chars[0], first[1]))] if n else []
            s = st.alloc(520, 'istream'); st.wobj(s.obj).zero.append((0, 520))
            E.store(st, s, 8, Ptr(('g', '_ZTTSt14basic_ifstreamIcSt11char_traitsIcEE$fakevt'), 24))
            b = st.alloc(8, 'bin-stream'); l = st.alloc(8, 'listing-stream')
            rs = E.run('xf_compile', [s, b, l], st)
            text_of = lambda x, m: bytes(model_int(m, c) & 0xff for c in chars).decode('latin1') if m is not None else ''
        elif kind == 'tokens':
            E, rs = run_token_job(X, job[1], first=job[2], deadline_s=3000)
            text_of = lambda x, m: render_tokens(X, x.get('toklog', ()), m)
        elif kind == 'body':
            E, rs = run_token_job(X, job[1], first=job[2], prefix=CONTEXT, pool=BODY_POOL, deadline_s=3000)
            text_of = lambda x, m: render_tokens(X, x.get('toklog', ()), m)
        else:
            src = job[2]; data = src.encode('latin1')
            E, rs = X.run(list(data), deadline_s=300)
            text_of = lambda x, m: src
        finds, stats = classify(X, E, rs, text_of)
        smt = []
        for r in rs:
            if r.kind == 'ret' and r.st.pc:
                from lib.report import to_smt2
                smt.append(('sat', to_smt2(list(r.st.pc)), 'path condition of an accepted input')); break
        return dict(job=job[:2] + ((job[2],) if kind != 'program' else ()), smt=smt, findings=finds, stats=stats, steps=E.steps, queries=E.nq, solver_s=E.tq, functions=sorted(E.called), wall=time.time() - t0)
    except Exception as e:
        import traceback
        return dict(job=job[:2], error=f"{type(e).__name__}: {e}", tb=traceback.format_exc()[-1500:], findings=[], stats={}, steps=0, queries=0, solver_s=0, functions=[])

def confirm(src):
    """the real xcmp, built with AddressSanitizer and UndefinedBehaviourSanitizer, on the source text: a sanitizer report, a signal
    or a hang confirms. Returns (confirmed, what)"""
    d = tempfile.mkdtemp(dir=os.path.join(build.VERIF, 'build'))
    try:
        open(os.path.join(d, 'p.x'), 'wb').write(src.encode('latin1'))
        try: r = subprocess.run([build.tool_san('xcmp'), 'p.x', '-o', 'p.bin'], cwd=d, capture_output=True, timeout=60, env=dict(os.environ, ASAN_OPTIONS='detect_leaks=0'))
        except subprocess.TimeoutExpired: return True, 'the sanitizer build of xcmp does not terminate within 60 s'
        err = r.stderr.decode('latin1')
        if 'runtime error:' in err or 'AddressSanitizer' in err or r.returncode < 0:
            m = _re.search(r'(runtime error:[^\n]*|AddressSanitizer:[^\n]*)', err)
            return True, (m.group(1) if m else f'signal {-r.returncode}')[:200]
        # uninitialised reads are invisible to ASan/UBSan: different heap fills must give different results
        if native_perturbed(src) > 1: return True, 'output depends on the heap fill (MALLOC_PERTURB_)'
        return False, f'exit status {r.returncode}, no sanitizer report'
    finally: shutil.rmtree(d, ignore_errors=True)

FIRST_BYTES = [(0, 31), (32, 47), (48, 57), (58, 64), (65, 90), (91, 96), (97, 104), (105, 112), (113, 122), (123, 127), (128, 255)]

def main():
    ck = Check('C09', 'other')
    quick = ck.tier == 'quick'
    X = XTokens(); build.tool('xcmp'); build.tool_san('xcmp')
    NT = max(X.TOK.values())
    nbytes = 2 if quick else 3; ktok = 5 if quick else 7; kbody = 3 if quick else 5
    jobs = []
    for n in range(1, nbytes + 1): jobs += [('bytes', n, fb) for fb in FIRST_BYTES]
    # work splitting by the kinds of the first one (quick) or two (thorough) symbolic tokens
    heads = [t for t in range(0, NT + 1)] if quick else [(t, u) for t in range(0, NT + 1) for u in range(0, NT + 1)]
    jobs += [('tokens', ktok, h) for h in heads]
    jobs += [('body', kbody, h) for h in heads]
    progs = ill_formed() + matrix_programs() + [('unusual:' + k, v) for k, v in UNUSUAL.items()] + mutants(ck.tier, ck.seed)
    jobs += [('program', n, s) for n, s in progs]
    jobs.sort(key=lambda j: 0 if j[0] in ('tokens', 'body') else (1 if j[0] == 'bytes' else 2))
    results = []
    with multiprocessing.Pool(16) as pool:
        hs = [pool.apply_async(_job, (j,)) for j in jobs]
        for j, h in zip(jobs, hs):
            try: results.append(h.get(timeout=3600))
            except multiprocessing.TimeoutError: results.append(dict(job=j[:2], error='timeout', findings=[], stats={}, steps=0, queries=0, solver_s=0, functions=[]))
    known = ck.known if hasattr(ck, 'known') else []
    seen = {}
    tot = dict(paths=0, compiled=0, rejected=0)
    for j, r in zip(jobs, results):
        if r.get('error'): ck.fail_inconclusive(f"job {j[:2]}: {r['error']}"); continue
        for k_ in tot: tot[k_] += r['stats'].get(k_, 0)
        ck.cov['paths'] += r['stats'].get('paths', 0); ck.cov['queries'] += r['queries']; ck.cov['solver_s'] += r['solver_s']; ck.cov['ir_steps'] += r['steps']
        ck.cov['functions'] |= set(r['functions'])
        if len(ck.final_queries) < 6: ck.final_queries += r.get('smt', [])[:1]
        ck.obligation(True, max(1, r['stats'].get('paths', 0) - len(r['findings'])))
        for cat, what, text in r['findings']:
            ck.obligation(False)
            # one report per (category, code location): the same defect is reached by many inputs
            loc = what.split(' at ')[-1] if ' at ' in what else what[:80]
            sig = (cat, loc)
            if sig in seen: seen[sig][1] += 1; continue
            seen[sig] = [(cat, what, text, j), 1]
    for sig, ((cat, what, text, j), count) in seen.items():
        if cat in ('incomplete', 'budget'):
            # a path that does not end: the real compiler decides whether this is a hang
            ok, how = confirm(text)
            if not ok:
                if cat == 'incomplete': ck.fail_inconclusive(f"exploration incomplete in job {j[:2]}: {what} ({count} paths cut; the native compiler finishes on {text[:60]!r})")
                continue                   # depth: the engine's 400-frame limit, not the compiler's
        else: ok, how = confirm(text)
        key = f"{cat}:{hashlib.sha1((sig[1]).encode()).hexdigest()[:10]}"
        rp = ck.replay_file(key, {'source': text, 'engine_finding': what, 'inputs_reaching_it': count, 'native_sanitizer_run': how, 'job': str(j[:2])})
        if cat in ('uninit',) and not ok: ok = True      # an indeterminate read is a violation by definition; sanitizers cannot see it
        ck.violation(key, f"{what} [input: {text[:160]!r}; {count} explored inputs reach it; sanitizer build: {how}]", rp, ok)
    ck.cov['harnesses'] += ['xf_compile (characters -> image)', 'xf_compile_tokens (arbitrary token source -> image)']
    ck.sample({'inputs': {'byte strings up to': nbytes, 'token sequences up to': ktok, 'statement bodies up to tokens': kbody, 'programs': len(progs)},
               'paths': tot['paths'], 'compiled': tot['compiled'], 'rejected_cleanly': tot['rejected']})
    ck.assume(f"inputs: (B) every byte string of 1..{nbytes} bytes, all bytes symbolic, through the real Lexer; (T) every token sequence of up to {ktok} tokens: Lexer::readToken is replaced by a source of arbitrary tokens "
              "(symbolic token kind - the parser's switches fork on it -, identifiers from {main, x, f}, symbolic 32-bit numbers, strings from {\"\", \"ab\"}); "
              f"(S) every sequence of up to {kbody} tokens as the body of main after the declarations `{CONTEXT}` with identifiers from {{x, t, f, p, u, k}}; "
              "(P) ill-formed and unusual programs (undeclared, redeclared and mis-typed names, wrong arities, missing main, non-constant and overflowing constants, invalid system calls, unterminated literals, deep nesting, "
              "long identifiers, many procedures) and token-level mutants of the skeleton programs. Longer inputs are outside",
              "every path must end in an image or in an exception derived from std::exception before any byte is emitted; null and out-of-bounds accesses, reads of indeterminate memory, signed overflow and shifts "
              "(poison reaching an observable), foreign exceptions and budget exhaustion are findings; each is replayed on the real xcmp built with ASan+UBSan (indeterminate reads: different heap fills)",
              "the stage sequence is Driver::run's for EMIT_BINARY, written out in the harness (Driver::run itself is executed in C14); text formatting of diagnostics (boost::format) is modelled at its API; "
              "std::istream::get/eof state, libc classifiers (\"C\" locale), strtoul and operator new are models; recursion deeper than the engine's 400 frames is decided by the native run")
    ck.crosscheck()
    ck.finish("The whole X compiler is executed by the engine on symbolic byte strings, on arbitrary token sequences (the parser forks on symbolic token kinds) and on families of ill-formed programs; "
              "every path ends in an emitted image or a clean diagnostic, otherwise the finding is replayed on a sanitizer build of the real compiler.")

if __name__ == '__main__':
    from lib.report import guarded
    guarded(main)
