# xcmp kernels: constant folding against the reference operators (C07), indeterminate members (C11).
from common import *
sys.path.insert(0, os.path.join(build.VERIF, 'ref'))

def xtokens(): return read_enum(os.path.join(build.REPO, 'xcmp.hpp'), 'Token')

def ref_binop(op, a, b):
    """X reference operators on 32-bit two's-complement terms (wrap-around for + -; boolean operands for and/or)"""
    one, zero = z3.BitVecVal(1, 32), z3.BitVecVal(0, 32)
    t = {'PLUS': a + b, 'MINUS': a - b,
         'EQ': z3.If(a == b, one, zero), 'NE': z3.If(a != b, one, zero), 'LS': z3.If(a < b, one, zero), 'LE': z3.If(a <= b, one, zero),
         'GR': z3.If(a > b, one, zero), 'GE': z3.If(a >= b, one, zero),
         'AND': z3.If(a == 0, zero, b), 'OR': z3.If(a != 0, one, b)}
    return t[op]

def engine_for(M):
    E = Engine(M); stubs.install(E)
    for nm in list(M.funcs):
        if ('Error' in nm and 'C2E' in nm and nm.startswith('_ZN4xcmp')) or nm.startswith('_ZN7hexutil5ErrorC'):
            E.stubs[nm] = lambda E_, st, a: E_.store(st, a[0], 8, NULL)
    E.prefix_stubs = [('_ZN5boost', lambda E_, st, a: a[0] if a else None), ('_ZNK5boost', lambda E_, st, a: a[0] if a else None)]
    return E

def c07_kernels(ck):
    M = parse_module(build.ir('xk.cpp')); TOK = xtokens()
    a, b = z3.BitVec('a', 32), z3.BitVec('b', 32)
    for op in ('PLUS', 'MINUS', 'EQ', 'NE', 'LS', 'LE', 'GR', 'GE', 'AND', 'OR'):
        E = engine_for(M); st = State(); flag = st.alloc(4, 'isconst')
        if op in ('AND', 'OR'): st.pc = [z3.ULE(a, 1), z3.ULE(b, 1)]       # boolean-typed operands
        for r in E.run('xk_fold_bin', [TOK[op], a, b, flag], st):
            if r.kind != 'ret':
                ck.violation(f"fold:{op}:{r.kind}", f"folding {op} ends in {r.kind}: {r.val}", None); continue
            ic = E.load(r.st, flag, 4)
            if isinstance(r.val, PV):
                # signed overflow in the compiler's own int arithmetic: undefined in C++, recorded as ub_only; the value compared is the wrapped one
                E.ub.append(('ub-overflow', r.val.why, None, None)); r.val = r.val.v
            ok, m = ck.prove(E, r.st, z3.And(bv(ic, 32) != 0, bv(r.val, 32) == ref_binop(op, a, b)), f"compile-time {op} equals the reference operator for all operand pairs")
            if not ok:
                av, bvv = model_int(m, a), model_int(m, b)
                ck.violation(f"fold:{op}", f"ConstProp folds {sgn(av, 32)} {op} {sgn(bvv, 32)} to {m.eval(bv(r.val, 32))}, reference {m.eval(ref_binop(op, a, b))}", None)
        for kind, what, m, pc_ in E.ub:
            ck.ub_only.append({'kind': kind, 'what': f"folding {op}: {what} (int arithmetic in the compiler; result wraps on the supported compilers)", 'model': str(m)[:100]})
        E.ub = []
        ck.engine(E, f'xcmp::ConstProp::visitPost(BinaryOpExpr&) {op}')
    for op, ref in (('MINUS', lambda x: -x), ('NOT', lambda x: z3.If(x == 0, z3.BitVecVal(1, 32), z3.BitVecVal(0, 32)))):
        E = engine_for(M); st = State(); flag = st.alloc(4, 'isconst')
        if op == 'NOT': st.pc = [z3.ULE(a, 1)]
        for r in E.run('xk_fold_un', [TOK[op], a, flag], st):
            if r.kind != 'ret':
                ck.violation(f"fold-un:{op}:{r.kind}", f"folding unary {op} ends in {r.kind}: {r.val}", None); continue
            ic = E.load(r.st, flag, 4)
            if isinstance(r.val, PV): E.ub.append(('ub-overflow', r.val.why, None, None)); r.val = r.val.v
            ok, m = ck.prove(E, r.st, z3.And(bv(ic, 32) != 0, bv(r.val, 32) == ref(a)), f"compile-time unary {op} equals the reference operator for all operands")
            if not ok: ck.violation(f"fold-un:{op}", f"ConstProp folds unary {op} of {model_int(m, a)} wrongly", None)
        for kind, what, m, pc_ in E.ub:
            ck.ub_only.append({'kind': kind, 'what': f"folding unary {op}: {what}", 'model': str(m)[:100]})
        E.ub = []
        ck.engine(E, f'xcmp::ConstProp::visitPost(UnaryOpExpr&) {op}')
    # val propagation: exactly the declared value, only when constant
    v = z3.BitVec('v', 32)
    E = engine_for(M); st = State(); flag = st.alloc(4, 'isconst')
    for r in E.run('xk_valprop', [1, v, flag], st):
        if r.kind != 'ret': ck.violation(f"valprop:{r.kind}", f"propagating a constant val ends in {r.kind}: {r.val}", None); continue
        ic = E.load(r.st, flag, 4)
        ok, m = ck.prove(E, r.st, z3.And(bv(ic, 32) != 0, bv(r.val, 32) == v), "a use of 'val v = c' is the constant c")
        if not ok: ck.violation("valprop:value", f"val propagation yields {m.eval(bv(r.val, 32))} for declared value {model_int(m, v)}", None)
    ck.engine(E, 'xcmp::ConstProp val propagation')
    ck.sample({'kernel': 'ConstProp::visitPost(BinaryOpExpr&)', 'operands': 'a, b 32-bit symbolic', 'operators': 10})

def c11_kernels(ck):
    """'val v = g' with a non-constant initialiser: the use of v must not become a constant read from indeterminate memory"""
    M = parse_module(build.ir('xk.cpp'))
    E = engine_for(M); st = State(); flag = st.alloc(4, 'isconst')
    for r in E.run('xk_valprop', [0, 0, flag], st):
        ok = True; why = ''
        if r.kind == 'throw':
            ok = E.ti_derives(r.st, r.val.tinfo, Ptr(('g', '_ZTISt9exception'), 0))
            why = "foreign exception"
        elif r.kind == 'violation': ok, why = False, f"{r.val.kind}: {r.val.msg}"
        elif r.kind == 'ret':
            ic = E.load(r.st, flag, 4)
            if isinstance(ic, Undef) or isinstance(r.val, Undef): ok, why = False, "constant flag or value indeterminate"
            elif not (is_c(ic) and ic == 0): ok, why = False, f"a val with a non-constant initialiser is propagated as the constant {r.val}"
        else: ok, why = False, r.kind
        ck.obligation(ok)
        if not ok:
            # native confirmation: the compiler accepts the source and bakes heap contents into the binary
            import tempfile, shutil
            d = tempfile.mkdtemp(dir=os.path.join(build.VERIF, 'build'))
            try:
                open(os.path.join(d, 'p.x'), 'w').write("var g; val v = g; proc main() is 0(v)\n")
                outs = set()
                for fill in ('1', '90', '200'):
                    r_ = subprocess.run([build.tool('xcmp'), 'p.x'], cwd=d, capture_output=True, env=dict(os.environ, MALLOC_PERTURB_=fill), timeout=30)
                    outs.add((r_.returncode, open(os.path.join(d, 'a.out'), 'rb').read() if os.path.exists(os.path.join(d, 'a.out')) else b''))
                confirmed = len(outs) > 1 or any(rc == 0 for rc, _ in outs)
            finally: shutil.rmtree(d, ignore_errors=True)
            ck.violation("val-nonconst-uninit", f"'var g; val v = g': {why} (ValDecl::exprValue is never set; binaries differ across heap fills: {len(outs) > 1})",
                         ck.replay_file("val-nonconst-uninit", {'source': "var g; val v = g; proc main() is 0(v)", 'distinct_binaries_under_MALLOC_PERTURB_': len(outs)}), confirmed)
    ck.engine(E, 'xcmp::ConstProp val propagation (non-constant initialiser)')
