# xcmp kernels: constant folding against the reference operators (C07), indeterminate members (C11).
from common import *
sys.path.insert(0, os.path.join(build.VERIF, 'ref'))

def xtokens(): return read_enum(os.path.join(build.REPO, 'xcmp.hpp'), 'Token')

def ref_binop(op, a, b):
    """X reference operators on 32-bit two's-complement terms (wrap-around for + -; boolean operands for and/or)"""
    one, zero = z3.BitVecVal(1, 32), z3.BitVecVal(0, 32)
    t = {'PLUS': a + b, 'MINUS': a - b,
         'EQ': z3.If(a == b, one, zero), 'NE': z3.If(a != b, one, zero), 'LS': z3.If(a < b, one, zero), 'LE': z3.If(a <= b, one, zero),
         'GR': z3.If(a > b, one, zero), 'GE': z3.If(a >= b, one, zero),
         'AND': z3.If(a == 0, zero, b), 'OR': z3.If(a != 0, one, b)}
    return t[op]

def engine_for(M):
    E = Engine(M); stubs.install(E)
    for nm in list(M.funcs):
        if ('Error' in nm and 'C2E' in nm and nm.startswith('_ZN4xcmp')) or nm.startswith('_ZN7hexutil5ErrorC'):
            E.stubs[nm] = lambda E_, st, a: E_.store(st, a[0], 8, NULL)
    E.prefix_stubs = [('_ZN5boost', lambda E_, st, a: a[0] if a else None), ('_ZNK5boost', lambda E_, st, a: a[0] if a else None)]
    return E

def c07_kernels(ck):
    M = parse_module(build.ir('xk.cpp')); TOK = xtokens()
    a, b = z3.BitVec('a', 32), z3.BitVec('b', 32)
    for op in ('PLUS', 'MINUS', 'EQ', 'NE', 'LS', 'LE', 'GR', 'GE', 'AND', 'OR'):
        E = engine_for(M); st = State(); flag = st.alloc(4, 'isconst')
        if op in ('AND', 'OR'): st.pc = [z3.ULE(a, 1), z3.ULE(b, 1)]       # boolean-typed operands
        for r in E.run('xk_fold_bin', [TOK[op], a, b, flag], st):
            if r.kind != 'ret':
                ck.violation(f"fold:{op}:{r.kind}", f"folding {op} ends in {r.kind}: {r.val}", None); continue
            ic = E.load(r.st, flag, 4)
            if isinstance(r.val, PV):
                # signed overflow in the compiler's own int arithmetic: undefined in C++, recorded as ub_only; the value compared is the wrapped one
                E.ub.append(('ub-overflow', r.val.why, None, None)); r.val = r.val.v
            ok, m = ck.prove(E, r.st, z3.And(bv(ic, 32) != 0, bv(r.val, 32) == ref_binop(op, a, b)), f"compile-time {op} equals the reference operator for all operand pairs")
            if not ok:
                av, bvv = model_int(m, a), model_int(m, b)
                ck.violation(f"fold:{op}", f"ConstProp folds {sgn(av, 32)} {op} {sgn(bvv, 32)} to {m.eval(bv(r.val, 32))}, reference {m.eval(ref_binop(op, a, b))}", None)
        for kind, what, m, pc_ in E.ub:
            ck.ub_only.append({'kind': kind, 'what': f"folding {op}: {what} (int arithmetic in the compiler; result wraps on the supported compilers)", 'model': str(m)[:100]})
        E.ub = []
        ck.engine(E, f'xcmp::ConstProp::visitPost(BinaryOpExpr&) {op}')
    for op, ref in (('MINUS', lambda x: -x), ('NOT', lambda x: z3.If(x == 0, z3.BitVecVal(1, 32), z3.BitVecVal(0, 32)))):
        E = engine_for(M); st = State(); flag = st.alloc(4, 'isconst')
        if op == 'NOT': st.pc = [z3.ULE(a, 1)]
        for r in E.run('xk_fold_un', [TOK[op], a, flag], st):
            if r.kind != 'ret':
                ck.violation(f"fold-un:{op}:{r.kind}", f"folding unary {op} ends in {r.kind}: {r.val}", None); continue
            ic = E.load(r.st, flag, 4)
            if isinstance(r.val, PV): E.ub.append(('ub-overflow', r.val.why, None, None)); r.val = r.val.v
            ok, m = ck.prove(E, r.st, z3.And(bv(ic, 32) != 0, bv(r.val, 32) == ref(a)), f"compile-time unary {op} equals the reference operator for all operands")
            if not ok: ck.violation(f"fold-un:{op}", f"ConstProp folds unary {op} of {model_int(m, a)} wrongly", None)
        for kind, what, m, pc_ in E.ub:
            ck.ub_only.append({'kind': kind, 'what': f"folding unary {op}: {what}", 'model': str(m)[:100]})
        E.ub = []
        ck.engine(E, f'xcmp::ConstProp::visitPost(UnaryOpExpr&) {op}')
    # val propagation: exactly the declared value, only when constant
    v = z3.BitVec('v', 32)
    E = engine_for(M); st = State(); flag = st.alloc(4, 'isconst')
    for r in E.run('xk_valprop', [1, v, flag], st):
        if r.kind != 'ret': ck.violation(f"valprop:{r.kind}", f"propagating a constant val ends in {r.kind}: {r.val}", None); continue
        ic = E.load(r.st, flag, 4)
        ok, m = ck.prove(E, r.st, z3.And(bv(ic, 32) != 0, bv(r.val, 32) == v), "a use of 'val v = c' is the constant c")
        if not ok: ck.violation("valprop:value", f"val propagation yields {m.eval(bv(r.val, 32))} for declared value {model_int(m, v)}", None)
    ck.engine(E, 'xcmp::ConstProp val propagation')
    ck.sample({'kernel': 'ConstProp::visitPost(BinaryOpExpr&)', 'operands': 'a, b 32-bit symbolic', 'operators': 10})

def string_kernel(ck, cats):
    """CodeBuffer::genString on literals of n = 0..nmax arbitrary characters: the DATA words are the length byte and the
    characters packed four to a word, little end first, zero padded (C01: packed string literals), and no byte of them is
    indeterminate (C11)"""
    M = parse_module(build.ir('xk.cpp'))
    nmax = 9 if ck.tier == 'quick' else 17
    for n in range(0, nmax + 1):
        E = engine_for(M)
        E.stubs['_ZNK5boost12basic_formatIcSt11char_traitsIcESaIcEE3strB5cxx11Ev'] = lambda E_, st, a: (stubs.Str(E_, st, a[0]).init_local(), a[0])[1]
        st = State()
        chars = [z3.BitVec(f'ch{i}', 8) for i in range(n)]
        cp = st.alloc(max(1, n), 'chars')
        for i, c in enumerate(chars): E.store(st, cp.add(i), 1, c)
        words = st.alloc(4*8, 'words')
        for r in E.run('xk_string', [n, cp, words], st):
            if r.kind != 'ret':
                if r.kind == 'violation' and r.val.kind == 'uninitialised':
                    if 'C11' in cats: ck.violation(f"string-uninit:{n}", f"genString on a {n}-character literal reads indeterminate memory: {r.val.msg}", None)
                else: ck.violation(f"string:{n}:{r.kind}", f"genString on a {n}-character literal ends in {r.kind}: {r.val}", None)
                continue
            bs = [n & 0xff] + chars; bs += [0] * ((-len(bs)) % 4)
            want = [z3.Concat(*[bv(b, 8) for b in reversed(bs[i:i+4])]) for i in range(0, len(bs), 4)]
            k = r.val
            got = [E.load(r.st, words.add(4*i), 4) for i in range(len(want))]
            undef = [i for i, g in enumerate(got) if isinstance(g, Undef)]
            if undef or not (is_c(k) and k == len(want)):
                if undef and 'C11' in cats:
                    confirmed = confirm_string_nondeterminism(n)
                    ck.violation(f"string-uninit:{n}", f"DATA word {undef[0]} of a {n}-character string literal is built from indeterminate memory ({got[undef[0]].why})", ck.replay_file(f"string-uninit:{n}", {'length': n}), confirmed)
                elif 'C01' in cats and not undef:
                    ck.violation(f"string-words:{n}", f"a {n}-character literal generates {k} DATA words, expected {len(want)}", None)
                ck.obligation(False); continue
            if 'C01' in cats:
                ok, m = ck.prove(E, r.st, z3.And([bv(g, 32) == w for g, w in zip(got, want)]), f"a {n}-character string literal is packed length-first, four characters to a word")
                if not ok:
                    cv = [model_int(m, c) for c in chars]
                    ck.violation(f"string-pack:{n}", f"string literal with characters {cv} is packed as {[hex(model_int(m, bv(g, 32))) for g in got]}, expected {[hex(model_int(m, w)) for w in want]}",
                                 ck.replay_file(f"string-pack:{n}", {'characters': cv}), confirm_string_pack(cv))
            else: ck.obligation(True)
        ck.engine(E, f'xcmp::CodeBuffer::genString (n={n})')

def confirm_string_pack(cv):
    """compile a program that passes the literal to a function returning one of its words; compare with the reference packing"""
    import tempfile, shutil
    if any(c in (0, 10, 13, 34, 92) for c in cv): return True      # not expressible directly in source; the kernel witness stands
    d = tempfile.mkdtemp(dir=os.path.join(build.VERIF, 'build'))
    try:
        lit = bytes(cv)
        nw = (len(cv) + 4) // 4
        src = b'val exit = 0; val put = 1; proc show(array s) is var i; var w; { i := 0; while i < ' + str(nw).encode() + b' do { w := s[i]; put(w, 0); i := i + 1 }; exit(0) } proc main() is show("' + lit + b'")\n'
        open(os.path.join(d, 'p.x'), 'wb').write(src)
        r = subprocess.run([build.tool('xcmp'), 'p.x'], cwd=d, capture_output=True, timeout=20)
        if r.returncode != 0: return True
        r2 = subprocess.run([build.tool('hexsim'), 'a.out'], cwd=d, capture_output=True, timeout=20)
        bs = [len(cv) & 0xff] + list(cv); bs += [0] * ((-len(bs)) % 4)
        want = bytes(bs[i] for i in range(0, len(bs), 4))           # put() writes the low byte of each word
        return r2.stdout != want
    finally: shutil.rmtree(d, ignore_errors=True)

def confirm_string_nondeterminism(n):
    import tempfile, shutil
    d = tempfile.mkdtemp(dir=os.path.join(build.VERIF, 'build'))
    try:
        open(os.path.join(d, 'p.x'), 'w').write('val exit = 0; proc p(array s) is exit(s[0]) proc main() is p("' + 'x' * n + '")\n')
        outs = set()
        for fill in ('0', '85', '170', '255'):
            subprocess.run([build.tool('xcmp'), 'p.x'], cwd=d, capture_output=True, env=dict(os.environ, MALLOC_PERTURB_=fill), timeout=30)
            outs.add(open(os.path.join(d, 'a.out'), 'rb').read() if os.path.exists(os.path.join(d, 'a.out')) else b'')
        return len(outs) > 1
    finally: shutil.rmtree(d, ignore_errors=True)

def c11_kernels(ck):
    string_kernel(ck, ('C11',))
    c11_val(ck)

def c11_val(ck):
    """a use of a val must never become a constant read from indeterminate memory: (0) 'var g; val v = g' (initialiser not
    constant), (2) a val used before its declaration has been evaluated"""
    import tempfile, shutil
    M = parse_module(build.ir('xk.cpp'))
    cases = ((0, "'var g; val v = g'", "var g; val v = g; proc main() is 0(v)", "val-nonconst-uninit"),
             (2, "'val a = v + 70000; val v = 3' (use before the declaration is evaluated)", "val a = v + 70000; val v = 3; proc main() is 0(a)", "val-forward-uninit"))
    for mode, desc, srcx, key in cases:
        E = engine_for(M); st = State(); flag = st.alloc(4, 'isconst')
        for r in E.run('xk_valprop', [mode, 5, flag], st):
            ok = True; why = ''
            if r.kind == 'throw':
                ok = E.ti_derives(r.st, r.val.tinfo, Ptr(('g', '_ZTISt9exception'), 0)); why = "foreign exception"
            elif r.kind == 'violation': ok, why = False, f"{r.val.kind}: {r.val.msg}"
            elif r.kind == 'ret':
                ic = E.load(r.st, flag, 4)
                if isinstance(ic, Undef) or isinstance(r.val, Undef): ok, why = False, "constant flag or value indeterminate"
                elif not (is_c(ic) and ic == 0): ok, why = False, f"the use is propagated as the constant {r.val}"
            else: ok, why = False, r.kind
            ck.obligation(ok)
            if ok: continue
            d = tempfile.mkdtemp(dir=os.path.join(build.VERIF, 'build'))
            try:
                open(os.path.join(d, 'p.x'), 'w').write(srcx + "\n"); outs = set()
                for fill in ('1', '90', '200'):
                    r_ = subprocess.run([build.tool('xcmp'), 'p.x'], cwd=d, capture_output=True, env=dict(os.environ, MALLOC_PERTURB_=fill), timeout=30)
                    outs.add((r_.returncode, open(os.path.join(d, 'a.out'), 'rb').read() if os.path.exists(os.path.join(d, 'a.out')) else b''))
                confirmed = len(outs) > 1 or any(rc == 0 for rc, _ in outs)
            finally: shutil.rmtree(d, ignore_errors=True)
            ck.violation(key, f"{desc}: {why} (ValDecl::exprValue is read before it is set; binaries differ across heap fills: {len(outs) > 1})",
                         ck.replay_file(key, {'source': srcx, 'distinct_binaries_under_MALLOC_PERTURB_': len(outs)}), confirmed)
        ck.engine(E, 'xcmp::ConstProp val propagation (non-constant initialiser / forward reference)')
