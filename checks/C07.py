#!/usr/bin/env python3
# C07: compile-time evaluation agrees with run-time evaluation (DESIGN.md section 4, C07).
from tvrun import *
import C01, xk

BOUNDARY = [0, 1, -1, 65535, -65535, 65536, -65536, 65537, -65537, 2147483647, -2147483647]

def materialisation_programs():
    """the immediate / constant-pool threshold: constants in areg and breg position"""
    out = []
    for c in BOUNDARY:
        lit = str(c) if c >= 0 else f"(0 - {-c})"
        out.append((f"const:areg:{c}", xgen.HEAD + f"proc main() is 0({lit})"))
        out.append((f"const:breg:{c}", xgen.HEAD + f"proc main() is 0(s0 + {lit})"))
        out.append((f"const:minus-breg:{c}", xgen.HEAD + f"proc main() is 0(s0 - {lit})"))
        out.append((f"const:cmp:{c}", xgen.HEAD + f"proc main() is if s0 < {lit} then 0(1) else 0(2)"))
        out.append((f"const:eq:{c}", xgen.HEAD + f"proc main() is if s0 = {lit} then 0(1) else 0(2)"))
        out.append((f"const:val:{c}", f"val k = {lit}; var s0; var s1; proc main() is 0(s1 + k)"))
    out.append(("const:intmin", xgen.HEAD + "proc main() is 0(s0 + #80000000)"))
    out.append(("const:fold-wrap", xgen.HEAD + "proc main() is 0(s0 + (2147483647 + 1))"))
    out.append(("const:fold-neg-wrap", xgen.HEAD + "proc main() is 0(s0 - (-#80000000))"))
    out += pool_pair_programs()
    return out

def pool_pair_programs(tier='quick'):
    """two constant-pool constants in ONE program (the pool is a map keyed by value: a key that loses information merges entries).
    Families: c and c with bit k flipped, for every k in 0..31 (so any single bit dropped from the key is seen); c and -c, ~c, c+1,
    c+65536, and the same low 16 / high 16 bits. Each is validated for all values of s0, s1 against the reference."""
    out = []; seen = set()
    def add(a, b):
        a &= 0xffffffff; b &= 0xffffffff
        if a == b or (a, b) in seen: return
        seen.add((a, b))
        out.append((f"const:pool-pair:{a:08X}:{b:08X}", xgen.HEAD + f"proc main() is 0((s0 + #{a:X}) - (s1 + #{b:X}))"))
    for c in (0x7FFF0000, 0x00010000, 0x12345678):
        for k in range(32): add(c, c ^ (1 << k))
        for k in (31, 16, 0): add(c ^ (1 << k), c)          # the other order of first use
        for d in (-c, ~c, c + 1, c + 65536, (c & 0xffff) | 0xABCD0000, (c & 0xffff0000) | 0x1234): add(c, d)
    return out

def data_word(ck):
    """a DATA word is emitted verbatim (constant pool entries)"""
    from common import ostream_stubs, out_bytes
    M = parse_module(build.ir('asm_kernels.cpp'))
    E = Engine(M); stubs.install(E); ostream_stubs(E)
    d = z3.BitVec('d', 32); st = State(); os_ = st.alloc(8, 'ostream')
    for r in E.run('k_data_emit', [d, os_], st):
        if r.kind != 'ret': ck.violation(f"data-emit:{r.kind}", f"emitting DATA ends in {r.kind}: {r.val}", None); continue
        bs = out_bytes(r.st)
        claim = z3.And(len(bs) == 4, z3.Concat(*[bv(b, 8) for b in reversed(bs[:4])]) == d) if len(bs) >= 4 else z3.BoolVal(False)
        ok, m = ck.prove(E, r.st, claim, "a DATA word is emitted as its little-endian value")
        if not ok: ck.violation("data-emit", f"DATA {model_int(m, d)} emitted wrongly", None)
    ck.engine(E, 'hexasm DATA emission')

def main():
    ck = Check('C07', 'translation_validation')
    xk.c07_kernels(ck)
    data_word(ck)
    import xfull
    xfull.literal_kernel(ck)       # source text -> the constant the program loads, every digit symbolic
    # run-time operators and rewrites: every program of the generator that has a constant sub-tree, plus the threshold programs
    progs = [(n, s) for n, s in xgen.programs(ck.tier, ck.seed) if n.startswith('expr:') or n.startswith('return:') or n.startswith('formals:')]
    jobs = [(n, s, 2, 1, 2000) for n, s in progs + materialisation_programs()]
    results = run_jobs(jobs)
    fold(ck, results)
    tv = TV()
    C01.report(ck, results, {'C01': True, 'findings': ('behaviour',)}, tv)
    tv.close()
    for r in results[-2:]: ck.sample({'program': r['name'], 'status': r['status'], 'obligations': r['obligations']})
    ck.cov['disagreements_checked'] = ck.cov['obligations']
    ck.assume("decided compositionally: (1) folding kernel - ConstProp::visitPost(BinaryOpExpr/UnaryOpExpr) on nodes built by the real constructors equals the X reference operator for all 2^64 operand pairs "
              "(wrap-around for + - unary-; boolean operands for and/or/~); val propagation yields exactly the declared constant; (2) materialisation - literals: `proc main() is 0(<literal>)` runs through the WHOLE compiler in the engine with every digit of a decimal literal of 1..10 digits (value < 2^32) or a hex literal of 1..8 digits a symbol (quick tier: 1-4 and 10 decimal, 1, 4 and 8 hex digits), and z3 proves that the constant the code loads (LDAC immediate or constant-pool DATA word) is the literal's value; C04 gives LDAC/LDBC v for all v, a DATA word is emitted verbatim, "
              "the immediate/pool threshold is covered by programs with the constants 0, +-1, +-65535, +-65536, +-65537, +-INT_MAX in areg and breg position; two pool constants in one program (the pool is keyed by value) by the pool-pair family: c and c with bit k flipped for every k in 0..31 for three base constants, plus -c, ~c, c+1, c+65536, equal halves (pairs that differ in several chosen bits at once are outside); (3) every operator and operand placement of the generator "
              "with variable operands (symbolic) and with constant sub-trees is validated against the reference for all values of the variables",
              "agreement of the folded and the run-time variant follows from (1)+(2)+(3) wherever the variable variant is unconditionally correct; '<' and friends on operands whose difference overflows are outside (the property's C01 subset excludes comparison-difference overflow)",
              "signed overflow in the compiler's own int arithmetic is undefined in C++ and reported under ub_only; the value compared is the wrapped one (what the supported compilers produce)")
    ck.crosscheck()
    ck.finish("Folding kernels of xcmp run symbolically on real AST nodes against the reference operators for all operand values; materialisation of every constant (C04, DATA emission, threshold programs); "
              "translation validation of all generated expressions with constant and variable operands against the X reference interpreter.")

if __name__ == '__main__':
    from lib.report import guarded
    guarded(main)
