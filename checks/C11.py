#!/usr/bin/env python3
# C11: compilation and assembly are deterministic functions of the source (DESIGN.md section 4, C11).
from layrun import *

def asm_kernels_uninit(ck):
    """members without initialisers must be written before they are read: directive objects straight from their constructors"""
    L = Lay(); TOK = L.TOK
    # an InstrLabel that was never resolved: getValue()/getSize()/toString feed listings; run the harness with emit=0 on a
    # program whose reference is never resolved because CodeGen throws first is not observable; instead read the fields after construction
    for shape in ([(K_REL, 'BR', 0), (K_LABEL, None, 0)], [(K_ABS, 'LDAM', 0), (K_LABEL, None, 0), (K_DATA, None, None)]):
        E, rs, syms, info = L.run_shape(shape)
        for r in rs:
            if r.kind != 'ret': continue
            for i in range(len(shape) + 1):
                for j in range(6):
                    v = E.load(r.st, info.add(24*i + 4*j), 4)
                    ck.obligation(not isinstance(v, Undef))
                    if isinstance(v, Undef):
                        ck.violation(f"listing-field-uninit:{shape_key(shape)}:{i}:{j}", f"listing field {j} of directive {i} is indeterminate after assembly ({v.why})", None)
        ck.engine(E, 'l_run (fields after assembly)')

def main():
    ck = Check('C11', 'other')
    L, shapes, results = run_family(ck, 'C11')
    asm_kernels_uninit(ck)
    import c11_xcmp
    c11_xcmp.run(ck)
    ck.assume("a tool run is a function of its source if it never reads indeterminate memory and never depends on pointer values: decided parts are (L) every C05 shape executed with heap and stack objects "
              "uninitialised - any indeterminate value reaching an emitted byte, a listing field, a branch or an address is reported; (K) the xcmp kernels named in c11_xcmp.py; "
              "(X) the WHOLE X compiler (harness/xfull.cpp: Lexer, Parser, CreateSymbols, ConstProp, OptimiseExpr, CodeGen, LowerDirectives, OptimiseDirectives, hexasm::CodeGen, emitProgramBin, listing fields - "
              "Driver::run's stage sequence) executed by the engine on every program of a set (skeletons, a sixth of the generator's programs quick / all of them thorough, and programs the compiler accepts although "
              "they are unusual: assignment to a val or a formal, unused and shadowed names, functions used as procedures, forward calls ...) with every heap and stack object indeterminate; the image the engine "
              "obtains is compared byte for byte with the natively built xcmp's (validation of engine and stubs on every program)",
              "X family models: std::istream::get/eof state, libc classifiers, strtoul, boost::format at its API (constructor, operator%, str()), operator new, rb-tree rebalancing as BST insertion; the program set is enumerated, not symbolic",
              "environment variables, ASLR and 'what was processed earlier in the same process' have no solver handle beyond this argument and are outside the claim",
              "cross-object pointer ordering comparisons observed by the engine are reported (none are expected: std::map keys are strings, not pointers)")
    if Lay is not None: pass
    ck.crosscheck()
    ck.finish("Symbolic 'memory sanitizer' over all immediates and all shapes: the engine allocates every heap and stack object uninitialised, tracks indeterminate values lazily and reports them "
              "when they reach an observable (emitted byte, listing field, branch, address). Kernels of xcmp where members without initialisers could be read before written are executed "
              "from their real constructors with the reference semantics as oracle; the whole compiler runs in the engine on a program set with the host's memory contents as the quantified input.")

if __name__ == '__main__':
    from lib.report import guarded
    guarded(main)
