#!/usr/bin/env python3
# C12: a simulator run depends only on the binary, the input and the options (DESIGN.md section 4, C12).
from simlib import *
import loader

def construct(sim, E, st, junk, maxc):
    """raw storage with arbitrary contents -> real constructor. Returns Processor pointer."""
    p = sim.new_proc(st, junk)
    IN = st.alloc(300, 'istream'); OUT = st.alloc(300, 'ostream')
    rs = E.run('s_construct', [p, IN, OUT, maxc], st)
    if len(rs) != 1 or rs[0].kind != 'ret': raise Inconclusive(f"constructor did not return normally: {rs}")
    return rs[0].st, p

def ob1_construction(ck, sim):
    """after the real constructor and load(), no word of memory outside the image and no scalar member that run()
    reads may still hold whatever the allocation contained"""
    nmax = 2 if ck.tier == 'quick' else 8
    for n in range(0, nmax + 1):
        body = [z3.BitVec(f'fb{n}_{i}', 8) for i in range(4*n)]
        data = list(struct.pack('<I', n)) + body
        E = sim.engine(); loader.file_stubs(E, lambda name: data)
        E.stubs['_ZNSt13basic_fstreamIcSt11char_traitsIcEEC1Ev'] = stubs.s_nop
        junk = z3.Array('junk', z3.BitVecSort(32), z3.BitVecSort(32))
        st = State(); maxc = z3.BitVec('maxc', 64)
        st, p = construct(sim, E, st, junk, maxc)
        fn = E.alloc_cstr(st, 'image.bin')
        rs = E.run('s_load', [p, fn], st)
        for r in rs:
            if r.kind != 'ret':
                ck.violation(f"ctor+load:n={n}:{r.kind}", f"constructor + load ends in {r.kind}: {r.val}", None); continue
            mem = sim.mem(r.st, p).full(); j = z3.BitVec('j', 32)
            junk_ = mem if False else junk
            ok, m = ck.prove(E, r.st, z3.Implies(z3.And(z3.UGE(j, n), z3.ULT(j, MEMWORDS)), z3.Select(mem, j) == 0),
                             f"after construction and load of an {n}-word image every other memory word reads as zero")
            if not ok:
                jj = model_int(m, j)
                confirm_memory(ck, sim, "mem-uninit", f"memory word {jj} (outside the {n}-word image) holds whatever the allocation contained ({model_int(m, z3.Select(mem, j)):#x}); the constructor does not clear memory")
            for f in ('pc', 'areg', 'breg', 'oreg', 'running', 'tracing', 'truncateInputs', 'exitCode', 'lastPC', 'cycles', 'maxCycles'):
                v = sim.getf(E, r.st, p, f); ck.obligation(not isinstance(v, Undef))
                if isinstance(v, Undef):
                    if f == 'exitCode': confirm_exitcode(ck, sim, "exitCode-uninit", "Processor::exitCode is not initialised by the constructor (read by run() when the cycle limit ends the run)")
                    else: ck.violation(f"member-uninit:{f}", f"Processor::{f} is indeterminate after construction", None)
        ck.engine(E, 'Processor::Processor + load')
        ck.sample({'obligation': 'construction', 'image_words': n})

def ob3_cycle_limit(ck, sim):
    """run() entered with the cycle limit already exceeded returns a defined value"""
    E = sim.engine(); E.stubs['_ZNSt13basic_fstreamIcSt11char_traitsIcEEC1Ev'] = stubs.s_nop
    junk = z3.Array('junk', z3.BitVecSort(32), z3.BitVecSort(32))
    maxc = z3.BitVec('maxc', 64); cyc = z3.BitVec('cyc', 64)
    st = State(); st.pc = [z3.UGT(maxc, 0), z3.UGT(cyc, maxc)]
    st, p = construct(sim, E, st, junk, maxc)
    sim.setf(E, st, p, 'cycles', cyc)
    rs = E.run('s_run', [p], st)
    for r in rs:
        ck.obligation(r.kind == 'ret' and not isinstance(r.val, Undef))
        if r.kind != 'ret': ck.violation(f"maxcycles:{r.kind}", f"run() past the cycle limit ends in {r.kind}: {r.val}", None)
        elif isinstance(r.val, Undef):
            confirm_exitcode(ck, sim, "exitCode-uninit", "run() cut short by --max-cycles returns the uninitialised exitCode")
    ck.engine(E, 'Processor::run (cycle limit)')

def ob2_ob3_trace(ck, sim):
    """the step reads only initialised state, and tracing changes nothing but the trace text"""
    pc, a, b, o = [z3.BitVec(n, 32) for n in ('pc', 'areg', 'breg', 'oreg')]
    mem = z3.Array('mem', z3.BitVecSort(32), z3.BitVecSort(32))
    inb = z3.BitVec('inbyte', 8); cyc = z3.BitVec('cyc', 64); exit0 = z3.BitVec('exit0', 32)
    assume, ins, opc, opr = isa_assumptions(pc, a, b, o, mem)
    assume += [z3.UGE(cyc, 1), z3.ULT(cyc, 1 << 40)]
    results = {}
    for tracing in (0, 1):
        E = sim.engine(); io_cut_stubs(E, lambda k: inb)
        # contract for formatting code: reads its arguments, writes only its own objects -> no effect on simulator state
        def fmt(E_, st, a_): return a_[0] if a_ else None
        # ... except that boost::format checks at run time that the arguments fed match the directives of its format string
        # and throws too_few_args / too_many_args otherwise: that exception would leave run(), so the count is modelled
        import re as _re
        BF = '_ZN5boost12basic_formatIcSt11char_traitsIcESaIcEE'
        def bf_table(st):
            t = dict(st.x.get('bf', {})); st.x['bf'] = t; return t
        def bf_ctor(E_, st, a_):
            f_ = bytes(E_.read_cstr(st, a_[1])); n = len(_re.findall(rb'%(?!%)[-#0 +]*\d*(?:\.\d+)?[a-zA-Z|]', f_.replace(b'%%', b'')))
            bf_table(st)[(a_[0].obj, a_[0].off)] = (n, 0, f_); return None
        def bf_feed(E_, st, a_):
            k = (a_[0].obj, a_[0].off); n, fed, f_ = bf_table(st).get(k, (None, 0, b''))
            if n is not None:
                if fed + 1 > n: raise Violation('format-arity', f"boost::format({f_!r}) is fed more arguments than it has directives (throws too_many_args)")
                bf_table(st)[k] = (n, fed + 1, f_)
            return a_[0]
        def bf_out(E_, st, a_):
            q = a_[1] if len(a_) > 1 and isinstance(a_[1], Ptr) else None
            ent = st.x.get('bf', {}).get((q.obj, q.off)) if q is not None else None
            if ent is not None and ent[0] is not None and ent[1] < ent[0]:
                raise Violation('format-arity', f"boost::format({ent[2]!r}) is written with {ent[1]} of its {ent[0]} arguments (throws too_few_args out of run())")
            return a_[0] if a_ else None
        E.prefix_stubs = [(BF + 'C2EPKc', bf_ctor), (BF + 'C1EPKc', bf_ctor), (BF + 'rm', bf_feed), ('_ZN5boostls', bf_out),
                          ('_ZN5boost', fmt), ('_ZNK5boost', fmt), ('_ZN5boostls', fmt), ('_ZNSolsE', fmt), ('_ZStls', fmt), ('_ZNSt7__cxx1112basic_string', fmt), ('_ZNKSt7__cxx1112basic_string', fmt)]
        st = State()
        st, p = sim.constructed_proc(E, st, mem)        # members this harness does not know hold what the constructor gives them
        st.pc = list(st.pc) + list(assume)
        for n, v in (('pc', pc), ('areg', a), ('breg', b), ('oreg', o)): sim.setf(E, st, p, n, v)
        for n, v in (('truncateInputs', 1), ('running', 1), ('tracing', tracing), ('exitCode', exit0), ('cycles', cyc), ('maxCycles', cyc)): sim.setf(E, st, p, n, v)
        rs = E.run('s_run', [p], st)
        for r in rs:
            if r.kind != 'ret':
                ok_, m = E.sat(r.st)
                what = f"step with tracing={tracing}: path ends in {r.kind}: {r.val}"
                if r.kind == 'violation' and r.val.kind == 'uninitialised':
                    ck.violation(f"step-reads-uninit:{tracing}", what, None)
                else: ck.violation(f"trace-step:{tracing}:{r.kind}", what + f" (pc={model_int(m, pc)} instr={model_int(m, ins):#x})", None)
        results[tracing] = (E, p, [r for r in rs if r.kind == 'ret'])
        ck.engine(E, f'Processor::run one iteration, tracing={tracing}')
    (E0, p0, R0), (E1, p1, R1) = results[0], results[1]
    for r0 in R0:
        for r1 in R1:
            s = State(); s.pc = list(r0.st.pc) + [c for c in r1.st.pc if not any(c is d for d in r0.st.pc)]
            ok_, _ = E0.sat(s)
            if not ok_: continue
            diffs = []
            for f in ('pc', 'areg', 'breg', 'oreg', 'running', 'exitCode', 'cycles'):
                x = sim.getf(E0, r0.st, p0, f); y = sim.getf(E1, r1.st, p1, f)
                if isinstance(x, Undef) or isinstance(y, Undef): continue
                diffs.append(bv(x, FW[f]*8) != bv(y, FW[f]*8))
            j = z3.BitVec('j', 32)
            diffs.append(z3.Select(sim.mem(r0.st, p0).full(), j) != z3.Select(sim.mem(r1.st, p1).full(), j))
            diffs.append(bv(r0.val, 32) != bv(r1.val, 32))
            e0 = [e for e in r0.st.events if e[0] in ('in', 'out')]; e1 = [e for e in r1.st.events if e[0] in ('in', 'out')]
            if [e[0] for e in e0] != [e[0] for e in e1]: diffs.append(z3.BoolVal(True))
            else:
                for x, y in zip(e0, e1):
                    for u, v in zip(x[1:], y[1:]):
                        w = u.size() if not is_c(u) else (v.size() if not is_c(v) else 32)
                        diffs.append(bv(u, w) != bv(v, w))
            ok, m = ck.prove(E0, s, z3.Not(z3.Or(diffs)), "tracing on/off: same successor state, exit value and I/O events")
            if not ok:
                ck.violation("trace-changes-state", f"enabling tracing changes the run: pc={model_int(m, pc)} instr={model_int(m, ins):#x}", None)
    ck.sample({'obligation': 'trace on/off', 'paths_off': len(R0), 'paths_on': len(R1)})

# ---- native confirmation: the real constructor run on storage with non-zero contents
_dirty = {}
def dirty(sim):
    if 'r' not in _dirty:
        r = subprocess.run([sim.native()], input="dirty 150000\n", capture_output=True, text=True, timeout=60, env=dict(os.environ, MALLOC_PERTURB_='90'))
        t = r.stdout.split()
        _dirty['r'] = (int(t[0]), int(t[1]))
    return _dirty['r']
def confirm_memory(ck, sim, key, what):
    mw, rv = dirty(sim)
    rp = ck.replay_file(key, {'native': 'new Processor under MALLOC_PERTURB_=90 (malloc returns bytes 0xA5)', 'memory[150000]': mw})
    ck.violation(key, what + f" (native: memory[150000] == {mw:#x} after construction in dirty storage)", rp, mw != 0)
def confirm_exitcode(ck, sim, key, what):
    mw, rv = dirty(sim)
    rp = ck.replay_file(key, {'native': 'new Processor under MALLOC_PERTURB_=90, cycles > maxCycles, run()', 'run() returned': rv})
    ck.violation(key, what + f" (native: run() returned {rv & 0xffffffff:#x} from dirty storage)", rp, rv != 0)

def main():
    ck = Check('C12', 'other')
    sim_inl = Sim(noinline=False); sim_cut = Sim(noinline=True)
    ob1_construction(ck, sim_inl)
    ob3_cycle_limit(ck, sim_inl)
    ob2_ob3_trace(ck, sim_cut)
    ck.assume("heap/stack perturbation, ASLR and environment size are covered through 'nothing indeterminate is read' (obligations 1-2), an argument, not a solver query",
              "formatting callees of trace()/traceSyscall() (boost::format, ostream <<, std::string) modelled as: read their arguments, write only their own objects",
              "std::fstream default constructors (HexSimIO::fileIO) stubbed as no-ops; ifstream members modelled over a symbolic file",
              "quantifier of C02 for the step (addresses in range, defined instructions); truncateInputs = true",
              "image size n <= bound, header word == n")
    ck.crosscheck()
    ck.finish("Three solver obligations that give the statement by induction over C02's step: (1) after the real constructor and load() on raw storage with "
              "arbitrary contents, z3 is asked whether any memory word outside the image can be non-zero and the engine reports members still indeterminate; "
              "(2) the step executes with instr/lastPC/instrEnum uninitialised and any read of an indeterminate cell is reported; (3) the step is run with tracing "
              "off and on (trace()/traceSyscall() executed, formatting stubbed) and z3 proves equal successor state, exit value and I/O events for every path pair; "
              "run() entered beyond the cycle limit must return a defined value.")

if __name__ == '__main__':
    from lib.report import guarded
    guarded(main)
