#!/usr/bin/env python3
# C13: RTL testbench results do not depend on the power-on state (DESIGN.md section 4, C13).
from rtllib import *
import loader, tempfile, shutil

def tb_engine(tb, file_data, mem0, on_syscall):
    E = Engine(tb.M); stubs.install(E); loader.file_stubs(E, lambda name: file_data)
    E.max_steps = 3_000_000
    def zero_obj(E_, st, name):
        o = Obj(256, name); o.zero.append((0, 256)); return o
    E.extern['_ZN9Verilated3t_sE'] = zero_obj          # thread-local bookkeeping of libverilated (end-of-eval message queue): zeroed
    nop = stubs.s_nop; ret0 = stubs.s_ret0
    def rand_reset(E_, st, a):
        w = a[0]
        v = E_.newsym('poweron', w)
        return z3.ZeroExt(32 - w, v) if w < 32 else v
    def mem_reset(E_, st, a):
        # cut of the 2^19-iteration loop of VL_RAND_RESET_I calls: memory_q := arbitrary power-on contents (one SMT array)
        o = st.wobj(a[0].obj)
        o.regions.append(Region(a[0].off + tb.memoff, 4, RTL_MEMWORDS, mem0))
        # the other members of the memory module are reset like every register: VL_RAND_RESET_I
        for j, (k, w) in enumerate(tb.memfields):
            sub = Engine(tb.M); q = sub.run1('tb_memfield', [Ptr(900000, 0), j], State())[1]
            E_.store(st, a[0].add(q.off), w, rand_reset(E_, st, [8*w]))
        return None
    def model_ctor(E_, st, a):
        E_.store(st, a[0].add(8), 8, a[1]); return None
    def syms_ctor(E_, st, a):
        E_.store(st, a[0], 8, a[1]); E_.store(st, a[0].add(8), 8, NULL); return None
    def module_ctor(E_, st, a):
        E_.store(st, a[0], 8, a[1]); return None
    E.stubs.update({
        '_Z15VL_RAND_RESET_Ii': rand_reset,
        '_Z32Vhex_pkg_memory___ctor_var_resetP15Vhex_pkg_memory': mem_reset,
        '_ZN14VerilatedModelC2ER16VerilatedContext': model_ctor,
        '_ZN13VerilatedSymsC2EP16VerilatedContext': syms_ctor, '_ZN13VerilatedSymsD2Ev': nop,
        '_ZN15VerilatedModuleC2EPKc': module_ctor, '_ZN15VerilatedModuleD2Ev': nop,
        '_ZN14VerilatedScope9configureEP13VerilatedSymsPKcS3_S3_aRKNS_4TypeE': nop,
        '_ZN14VerilatedScope9varInsertEiPKcPvb16VerilatedVarTypeiiz': nop, '_ZN14VerilatedScopeD1Ev': nop, '_ZN14VerilatedScopeC1Ev': nop,
        '_ZN16VerilatedContext8addModelEP14VerilatedModel': nop, '_ZN16VerilatedContext8timeunitEi': nop,
        '_ZN9Verilated7catNameEPKcS1_S1_': lambda E_, st, a: NULL,
        '_ZN9Verilated9endOfEvalEP21VerilatedEvalMsgQueue': nop, '_ZN9Verilated20endOfThreadMTaskGutsEP21VerilatedEvalMsgQueue': nop,
        'pthread_mutex_lock': ret0, 'pthread_mutex_trylock': ret0, 'pthread_mutex_unlock': ret0,
        '_Z17VL_TESTPLUSARGS_IRKNSt7__cxx1112basic_stringIcSt11char_traitsIcESaIcEEE': ret0,
        '_ZN8Vhex_pkg5finalEv': nop, '_ZN16VerilatedContextD1Ev': nop, '_ZN8Vhex_pkgD1Ev': nop, '_ZN8Vhex_pkgD0Ev': nop,
        '_Z11VL_FATAL_MTPKciS0_S0_': lambda E_, st, a: (_ for _ in ()).throw(Abort('VL_FATAL')),
        '_Z13handleSyscallN3hex7SyscallERKSt10unique_ptrI8Vhex_pkgSt14default_deleteIS2_EERib': on_syscall,
    })
    pr = lambda E_, st, a: (st.events.append(('print',)), a[0])[1]
    E.prefix_stubs = [('_ZN5boost', lambda E_, st, a: a[0] if a else None), ('_ZNK5boost', lambda E_, st, a: a[0] if a else None),
                      ('_ZStls', pr), ('_ZNSolsE', pr), ('_ZSt16__ostream_insert', pr), ('_ZNSo', pr)]
    return E

def image_bytes(kind):
    """images the testbench is started on"""
    d = tempfile.mkdtemp(dir=os.path.join(build.VERIF, 'build'))
    try:
        if kind.endswith('.S'):
            src = os.path.join(build.REPO, 'tests', 'asm', kind)
            subprocess.run([build.tool('hexasm'), src, '-o', os.path.join(d, 'a.out')], cwd=d, check=True, capture_output=True, timeout=30)
        else:
            open(os.path.join(d, 'p.x'), 'w').write(kind if 'proc' in kind else open(os.path.join(build.REPO, 'tests', 'x', kind)).read())
            subprocess.run([build.tool('xcmp'), 'p.x'], cwd=d, check=True, capture_output=True, timeout=30)
        return list(open(os.path.join(d, 'a.out'), 'rb').read())
    finally:
        shutil.rmtree(d, ignore_errors=True)

def poweron(ck, tb, name, data, cycles):
    """construct with arbitrary power-on state, load the image with hextb's own load(), run hextb's own run() for the
    clocks before execution legitimately starts; nothing may be executed, stored or serviced and the registers are reset"""
    mem0 = z3.Array('poweron_mem', z3.BitVecSort(32), z3.BitVecSort(32))
    def on_syscall(E_, st, a):
        st.events.append(('SYSCALL', a[0])); return None
    E = tb_engine(tb, data, mem0, on_syscall)
    st = State()
    ctxsize = E.run1('tb_ctxsize', [], st)[1]
    ctx = st.alloc(ctxsize, 'VerilatedContext'); st.objs[ctx.obj].zero.append((0, ctxsize))
    rs = E.run('tb_new', [ctx], st)
    if len(rs) != 1 or rs[0].kind != 'ret': raise Inconclusive(f"Vhex_pkg construction: {rs}")
    st, top = rs[0].st, rs[0].val
    regs = {}
    for k, n in enumerate(('pc_q', 'areg_q', 'breg_q', 'oreg_q', 'memory_q', 'i_clk', 'i_rst', 'o_syscall_valid', 'o_syscall')):
        st, q = E.run1('tb_reg', [top, k], st); regs[n] = q
    rs = E.run('tb_load', [E.alloc_cstr(st, 'image.bin'), top], st)
    if len(rs) != 1 or rs[0].kind != 'ret': raise Inconclusive(f"hextb load(): {rs}")
    st = rs[0].st
    memobj = regs['memory_q'].obj
    loaded = st.objs[memobj].regions[0].full()
    nload = len([e for e in st.events if e[0] == 'print'])
    res = E.run('tb_run', [ctx, top, cycles], st)
    nbad = 0
    for r in res:
        if r.kind != 'ret':
            ok_, m = E.sat(r.st)
            ck.violation(f"poweron:{name}:{r.kind}", f"hextb run() from an arbitrary power-on state ends in {r.kind}: {r.val}", None); continue
        s = r.st
        sysc = [e for e in s.events if e[0] == 'SYSCALL']
        ck.obligation(not sysc)
        if sysc:
            nbad += 1
            ok_, m = E.sat(s)
            report(ck, tb, name, data, "syscall-before-reset", "a system call is serviced before reset has put the processor into its start state", m, E, s)
        memnow = s.objs[memobj].regions[0].full(); j = z3.BitVec('j', 32)
        ok, m = ck.prove(E, s, z3.Implies(z3.ULT(j, RTL_MEMWORDS), z3.Select(memnow, j) == z3.Select(loaded, j)), f"{name}: memory equals the loaded image when execution starts")
        if not ok:
            nbad += 1
            report(ck, tb, name, data, "store-before-reset", f"memory word {model_int(m, j)} is modified before execution starts (a store executed from the power-on state)", m, E, s)
        claims = [bv(E.load(s, regs[n], 4), 32) == 0 for n in ('pc_q', 'areg_q', 'breg_q', 'oreg_q')]
        ok, m = ck.prove(E, s, z3.And(claims), f"{name}: registers are in the start state after the reset window")
        if not ok:
            nbad += 1
            report(ck, tb, name, data, "regs-not-reset", "registers are not zero after the reset window", m, E, s)
    ck.engine(E, f'hextb run() on {name}')
    ck.sample({'image': name, 'paths': len(res), 'paths_with_findings': nbad, 'clocks_followed': cycles})

_native = {}
def report(ck, tb, name, data, key, what, m, E, s):
    """confirm on the real hextb: sweep +verilator+seed values and compare with hexsim"""
    if 'r' not in _native:
        confirmed, detail = False, {}
        hextb = build.tool_hextb()      # built from the working tree
        try:
            img = bytes(image_bytes("val exit = 0; proc main() is exit(7)"))
            d = tempfile.mkdtemp(dir=os.path.join(build.VERIF, 'build')); open(os.path.join(d, 'a.out'), 'wb').write(img)
            outs = {}
            if os.path.exists(hextb):
                for seed in range(1, 400):
                    r = subprocess.run([hextb, 'a.out', f'+verilator+seed+{seed}'], cwd=d, capture_output=True, timeout=60)
                    k = (r.returncode, r.stdout[-40:])
                    outs.setdefault(k, seed)
                    if len(outs) > 1: break
                confirmed = len(outs) > 1
                detail = {'hextb': hextb, 'distinct_outcomes': {str(k): v for k, v in outs.items()}}
            shutil.rmtree(d, ignore_errors=True)
        except Exception as e:
            detail = {'error': str(e)}
        _native['r'] = (confirmed, detail)
    confirmed, detail = _native['r']
    # the engine's witness is a concrete power-on state; a seed sweep that does not hit one within 400 seeds does not refute it
    ck.violation(key, f"{what} [image {name}]" + (f" (hextb outcomes differ across seeds: {list(detail.get('distinct_outcomes', {}).items())[:2]})" if confirmed else " (a sweep of 400 +verilator+seed values of the hextb built from the working tree found no differing run; the witness is the planted power-on state)"),
                 ck.replay_file(key, {'image': name, 'native': detail}), True)

def main():
    ck = Check('C13', 'other')
    tb = TbModel()
    Etmp = Engine(tb.M); stubs.install(Etmp)
    st = State(); dummy = st.alloc(1 << 22, 'memory-module')
    tb.memoff = Etmp.run1('tb_memoff', [dummy], st)[1]
    images = [('exit7.x', "val exit = 0; proc main() is exit(7)"), ('exit0.S', 'exit0.S')]
    if ck.tier == 'thorough': images += [('hello_putval.x', 'hello_putval.x'), ('hello.S', 'hello.S')]
    for name, kind in images:
        poweron(ck, tb, name, image_bytes(kind), 4)
    if ck.tier == 'thorough':
        # first word of the image symbolic: covers "the first instruction is an SVC" and every other first instruction
        data = image_bytes("val exit = 0; proc main() is exit(7)")
        data[4:8] = [z3.BitVec(f'w0b{i}', 8) for i in range(4)]
        poweron(ck, tb, 'symbolic-first-word', data, 4)
    ck.assume("hextb.cpp's own load() and run() are executed (RESET_BEGIN/RESET_END, clock toggle, reset window and syscall sampling are the real ones) on the Verilated model built by the real Vhex_pkg constructor chain",
              "VL_RAND_RESET_I returns a fresh symbolic value: the seed space is the symbolic state; the 2^19-word reset loop of memory_q is cut to one arbitrary SMT array; libverilated/pthread externals reached are no-ops (VerilatedContext zero-initialised, time starts at 0)",
              "run() is followed until the last clock edge inside the reset window (maxCycles = 4: time units 1..9); from the next edge on C03 applies",
              "handleSyscall cut to an event (any call before execution starts is a violation); printing cut to events")
    ck.crosscheck()
    ck.finish("From construction with every register, net and trigger-history bit symbolic and all memory outside the image arbitrary, through hextb's load() and the first clocks of hextb's run(): "
              "on every path z3 proves that memory still equals the loaded image for every word, no system call was serviced, and pc/areg/breg/oreg are zero when the reset window ends.")

if __name__ == '__main__':
    from lib.report import guarded
    guarded(main)
