# Shared pieces of the per-property checks.
import os, sys, random, subprocess, struct
sys.path.insert(0, os.path.dirname(os.path.dirname(os.path.abspath(__file__))))
import z3
from lib import build
from lib.report import Check
from irsym.ir import parse_module, Unsupported
from irsym.engine import Engine, PathResult
from irsym.values import *
from irsym import stubs

# hexasm::Token values (hexasm.hpp enum order) and hex::Instr opcodes, read from the header at run time
def read_enum(path, name):
    import re
    src = open(path).read()
    m = re.search(r'enum\s+(?:class\s+)?' + name + r'\s*\{(.*?)\}', src, re.S)
    body = re.sub(r'//[^\n]*', '', m.group(1))
    out = {}; nxt = 0
    for item in body.split(','):
        item = item.strip()
        if not item: continue
        if '=' in item:
            k, v = [x.strip() for x in item.split('=')]; nxt = int(v, 0)
        else: k = item
        out[k] = nxt; nxt += 1
    return out

def asm_tokens(): return read_enum(os.path.join(build.REPO, 'hexasm.hpp'), 'Token')
def hex_instrs(): return read_enum(os.path.join(build.REPO, 'hex.hpp'), 'Instr')

IMM_MNEMONICS = ['LDAM', 'LDBM', 'STAM', 'LDAC', 'LDBC', 'LDAP', 'LDAI', 'LDBI', 'STAI', 'BR', 'BRZ', 'BRN']

def ostream_stubs(E):
    """std::ostream::put/write -> byte events on the path"""
    def put(E_, st, a):
        st.events.append(('byte', a[1])); return a[0]
    def write(E_, st, a):
        n = E_.use(st, a[2], 'ostream::write length')
        if not is_c(n): raise Unsupported("symbolic write length")
        for b in E_.read_bytes(st, a[1], n): st.events.append(('byte', b))
        return a[0]
    E.stubs['_ZNSo3putEc'] = put; E.stubs['_ZNSo5writeEPKcl'] = write

def out_bytes(st): return [e[1] for e in st.events if e[0] == 'byte']

def prefix_fold(bytes_, k):
    """ISA prefix rule (hexb.pdf: oreg = oreg | opr; PFIX: oreg <<= 4; NFIX: oreg = 0xFFFFFF00 | oreg << 4)
    applied to the first k (prefix) bytes and the operand nibble of byte k. Returns (oreg_at_execute, wellformed)"""
    oreg = z3.BitVecVal(0, 32); ok = []
    for i in range(k):
        b = bv(bytes_[i], 8)
        hi = z3.LShR(b, 4)
        ok.append(z3.Or(hi == 0xE, hi == 0xF))
        oreg = oreg | z3.ZeroExt(24, b & 0xF)
        oreg = z3.If(hi == 0xF, z3.BitVecVal(0xFFFFFF00, 32) | (oreg << 4), oreg << 4)
    b = bv(bytes_[k], 8)
    oreg = oreg | z3.ZeroExt(24, b & 0xF)
    return oreg, z3.And(ok) if ok else z3.BoolVal(True)

def prefix_fold_concrete(bs):
    """decode one instruction from concrete bytes: -> (opcode, operand, length)"""
    oreg = 0
    for i, b in enumerate(bs):
        oreg |= b & 0xF
        hi = b >> 4
        if hi == 0xE: oreg = (oreg << 4) & 0xffffffff
        elif hi == 0xF: oreg = (0xFFFFFF00 | (oreg << 4)) & 0xffffffff
        else: return hi, oreg, i + 1
    return None, oreg, len(bs)

def run_native(exe, text, timeout=60):
    r = subprocess.run([exe], input=text, capture_output=True, text=True, timeout=timeout)
    return r.stdout, r.returncode

def model_int(m, v, default=0):
    if m is None: return default
    x = m.eval(v, model_completion=True)
    return x.as_long()
