#!/usr/bin/env python3
# C16: processor.v (and synth/processor.v) is behaviourally identical to processor.sv (DESIGN.md section 4, C16).
from rtllib import *

OUTS = [p for p in PORTS if p.startswith('o_')]

def explore(m, syms):
    """returns {stage: [(state, engine)]} for stages settle / edge / resettle from an arbitrary register state"""
    pc, a, b, o, ifd, idd, ifd2, idd2, pclk, prst, clk, rst = syms
    E = m.engine(); st, p = m.fresh(E)
    m.put(E, st, 'pc_q', z3.ZeroExt(11, pc)); m.put(E, st, 'areg_q', a); m.put(E, st, 'breg_q', b); m.put(E, st, 'oreg_q', o)
    m.put(E, st, 'i_f_data', ifd); m.put(E, st, 'i_d_data', idd)
    for n, v in (('i_clk', pclk), ('i_rst', prst), ('__Vtrigrprev__TOP__i_clk', pclk), ('__Vtrigrprev__TOP__i_rst', prst)):
        m.put(E, st, n, z3.ZeroExt(7, v))
    stages = {}
    sts = run_all(E, 'm_init', [p], [st])
    sts = run_all(E, 'm_eval', [p], sts); stages['settle'] = sts
    def prep(s):
        m.put(E, s, 'i_clk', z3.ZeroExt(7, clk)); m.put(E, s, 'i_rst', z3.ZeroExt(7, rst))
        m.put(E, s, 'i_f_data', ifd2); m.put(E, s, 'i_d_data', idd2)
    sts = run_all(E, 'm_eval', [p], [s.fork() for s in sts], prep); stages['edge'] = sts
    return E, stages

def main():
    ck = Check('C16', 'other')
    models = [ProcModel('sv', ['verilog/hex_pkg.sv', 'verilog/processor.sv']),
              ProcModel('v', ['verilog/processor.v']),
              ProcModel('synthv', ['synth/processor.v'])]
    pc = z3.BitVec('pc', 21); a, b, o = [z3.BitVec(n, 32) for n in ('areg', 'breg', 'oreg')]
    ifd, ifd2 = z3.BitVec('i_f_data', 8), z3.BitVec('i_f_data2', 8); idd, idd2 = z3.BitVec('i_d_data', 32), z3.BitVec('i_d_data2', 32)
    pclk, prst, clk, rst = [z3.BitVec(n, 1) for n in ('prev_clk', 'prev_rst', 'clk', 'rst')]
    syms = (pc, a, b, o, ifd, idd, ifd2, idd2, pclk, prst, clk, rst)
    res = {}
    for m in models:
        E, stages = explore(m, syms); res[m.tag] = (m, E, stages)
        ck.sample({'model': m.tag, 'paths': {k: len(v) for k, v in stages.items()}})
    import difflib
    same_text = open(os.path.join(build.REPO, 'synth/processor.v')).read() == ''.join(l for l in open(os.path.join(build.REPO, 'verilog/processor.v')) if not l.startswith('// Generated using sv2v'))
    ck.cov['synth_copy_textually_identical_modulo_header'] = same_text
    chk = Engine(models[0].M)      # plain solver front end for the comparison queries
    def summary(m, E, sts, n, w):
        """value of observable n as one term: ite over the path conditions of the model's paths"""
        t = None
        for x in sts:
            v = m.get(E, x, n)
            if isinstance(v, Undef): return None
            c = z3.And(x.pc) if x.pc else z3.BoolVal(True)
            t = bv(v, w) if t is None else z3.If(c, bv(v, w), t)
        return t
    for ta, tb in (('sv', 'v'), ('v', 'synthv')):
        ma, Ea, Sa = res[ta]; mb, Eb, Sb = res[tb]
        for stage in ('settle', 'edge'):
            s = State()
            # the path conditions of each model partition the input space (checked), so the ite-summaries are total
            for tag_, S_ in ((ta, Sa[stage]), (tb, Sb[stage])):
                ok, _ = ck.prove(chk, s, z3.Or([z3.And(x.pc) if x.pc else z3.BoolVal(True) for x in S_]), f"{tag_} {stage}: explored paths cover every input")
                if not ok: ck.fail_inconclusive(f"{tag_} {stage}: explored paths do not cover the input space")
            for n in REGS + OUTS:
                if ma.width[n] != mb.width[n]:
                    ck.violation(f"{ta}-vs-{tb}:width:{n}", f"{n} has different widths in {ta} and {tb}", None); continue
                w = 8*ma.width[n]
                x = summary(ma, Ea, Sa[stage], n, w); y = summary(mb, Eb, Sb[stage], n, w)
                if x is None or y is None:
                    ck.violation(f"{ta}-vs-{tb}:{stage}:{n}:undriven", f"{n} is never assigned in one model after {stage}", None); continue
                ok, mdl = ck.prove(chk, s, x == y, f"{ta} == {tb} after {stage}: {n}")
                if not ok:
                    vals = {str(v): model_int(mdl, v) for v in syms}
                    key = f"{ta}-vs-{tb}:{stage}:{n}"
                    rp = ck.replay_file(key, {'inputs_and_state': vals, 'differing': n, 'values': [str(mdl.eval(x, model_completion=True)), str(mdl.eval(y, model_completion=True))]})
                    ck.violation(key, f"{ta} and {tb} differ in {n} after {stage}: {mdl.eval(x, model_completion=True)} vs {mdl.eval(y, model_completion=True)} for instr={vals['i_f_data']:#04x}/{vals['i_f_data2']:#04x} pc={vals['pc']} areg={vals['areg']:#x} oreg={vals['oreg']:#x} clk {vals['prev_clk']}->{vals['clk']} rst {vals['prev_rst']}->{vals['rst']}", rp, True)
        ck.engine(Ea, f'Verilator eval of {ta}'); ck.engine(Eb, f'Verilator eval of {tb}')
    ck.engine(chk)
    ck.assume("SystemVerilog/Verilog semantics are Verilator 5.006's two-state semantics (the project's own simulation flow); X-propagation is outside",
              "verilator --cc -Wno-fatal --top-module processor on each file; eval_static/initial/settle run once before eval",
              "one evaluation from an arbitrary register state with arbitrary previous and new clock/reset levels and arbitrary port inputs: inductive step for all input sequences")
    ck.crosscheck()
    ck.finish("verilog/processor.sv, verilog/processor.v and synth/processor.v are each verilated; the generated ___eval (and the functions it calls) is executed "
              "symbolically from equal, arbitrary register values (pc 21 bit, areg/breg/oreg 32 bit), arbitrary i_f_data/i_d_data and arbitrary previous/new levels of i_clk and "
              "i_rst (covers rising clock with reset 0/1, rising reset, falling edges, no edge). After settling and after an evaluation with new clock/reset levels and new data inputs z3 proves, on ite-summaries over each model's paths (whose path conditions are proved to cover the input space), that all four registers and all ten outputs are equal (sv==v, v==synth/v).",
              {'exhaustive': True})

if __name__ == '__main__':
    from lib.report import guarded
    guarded(main)
