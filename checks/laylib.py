# L family: hexasm layout/emission on programs built from a descriptor, decoded by an independent oracle.
from common import *
import itertools, multiprocessing, time

NAMES = ["A", "B", "C", "D", "f", "g", "main", "BR", "lab0", "_start"]
K_LABEL, K_DATA, K_IMM, K_REL, K_ABS, K_OPR, K_FUNC, K_PROC = range(8)
REL_MN = ['BR', 'BRZ', 'BRN', 'LDAP', 'LDAI', 'LDBI', 'STAI']
ABS_MN = ['LDAM', 'LDBM', 'STAM', 'LDAC', 'LDBC']

class Lay:
    def __init__(self):
        self.ll = build.ir('asm_layout.cpp'); self.M = parse_module(self.ll)
        self.TOK = asm_tokens(); self.OPC = hex_instrs()
        self.OPRV = read_enum(os.path.join(build.REPO, 'hex.hpp'), 'OprInstr')
    def native(self): return build.native('asm_layout.cpp', extra=['-DNATIVE_DRIVER'])

    def engine(self):
        E = Engine(self.M); stubs.install(E); ostream_stubs(E)
        E.max_steps = 400000
        def err_ctor(vt):
            def f(E_, st, a):
                o = E_.getobj(st, a[0].obj); o = st.wobj(a[0].obj); o.zero.append((a[0].off, a[0].off + 48))
                E_.store(st, a[0], 8, Ptr(('g', vt), 16)); return None
            return f
        E.stubs['_ZN6hexasm17UnknownLabelErrorC2EN7hexutil8LocationENSt7__cxx1112basic_stringIcSt11char_traitsIcESaIcEEE'] = err_ctor('_ZTVN6hexasm17UnknownLabelErrorE')
        E.stubs['_ZN6hexasm15InvalidOprErrorC2ENS_5TokenE'] = err_ctor('_ZTVN6hexasm15InvalidOprErrorE')
        def fs_ctor(E_, st, a):
            st.events.append(('open-write', bytes(stubs.Str(E_, st, a[1]).data()))); return None
        E.stubs['_ZNSt13basic_fstreamIcSt11char_traitsIcEEC1ERKNSt7__cxx1112basic_stringIcS1_SaIcEEESt13_Ios_Openmode'] = fs_ctor
        E.stubs['_ZNSt13basic_fstreamIcSt11char_traitsIcEED1Ev'] = stubs.s_nop
        E.stubs['_ZNSt13basic_fstreamIcSt11char_traitsIcEE5closeEv'] = lambda E_, st, a: st.events.append(('close',))
        E.stubs['_ZNSt13basic_filebufIcSt11char_traitsIcEE5closeEv'] = lambda E_, st, a: (st.events.append(('close',)), a[0])[1]
        E.stubs['_ZNSt9basic_iosIcSt11char_traitsIcEE5clearESt12_Ios_Iostate'] = stubs.s_nop
        return E

    def run_shape(self, shape, symbolic=True, concrete_vals=None):
        """shape: list of (kind, mnemonic-or-None, arg) where arg is a name id, or for DATA/imm a value spec:
        None -> fresh 32-bit symbol, int -> concrete. Returns (engine, results, syms)"""
        E = self.engine(); st = State()
        n = len(shape)
        E.max_steps = 300000 + 4000*n      # ~25 layout passes; beyond that the path is reported as a possible hang
        kinds = st.alloc(4*n, 'kinds'); toks = st.alloc(4*n, 'toks'); args = st.alloc(4*n, 'args'); info = st.alloc(24*(n+2), 'info')
        syms = {}
        for i, (k, mn, a) in enumerate(shape):
            E.store(st, kinds.add(4*i), 4, k)
            E.store(st, toks.add(4*i), 4, self.TOK[mn] if mn else 0)
            if k in (K_DATA, K_IMM):
                if a is None:
                    v = z3.BitVec(f'v{i}', 32); syms[i] = v
                else: v = a & 0xffffffff
            else: v = a
            E.store(st, args.add(4*i), 4, v)
        rs = E.run('l_run', [n, kinds, toks, args, info, 1, 0], st)
        return E, rs, syms, info

def shape_text(shape, vals=None):
    """assembly source text of a shape (for native replay); vals: {index: int}"""
    out = []
    for i, (k, mn, a) in enumerate(shape):
        v = (vals or {}).get(i, a if isinstance(a, int) else 0)
        if k == K_LABEL: out.append(NAMES[a])
        elif k == K_DATA: out.append(f"DATA {sgn(v & 0xffffffff, 32)}")
        elif k == K_IMM: out.append(f"{mn} {sgn(v & 0xffffffff, 32)}")
        elif k in (K_REL, K_ABS): out.append(f"{mn} {NAMES[a]}")
        elif k == K_OPR: out.append(f"OPR {mn}")
        elif k == K_FUNC: out.append(f"FUNC {NAMES[a]}")
        elif k == K_PROC: out.append(f"PROC {NAMES[a]}")
    return '\n'.join(out) + '\n'

def shape_key(shape):
    out = []
    for k, mn, a in shape:
        if k == K_LABEL: out.append(NAMES[a] + ':')
        elif k == K_DATA: out.append('DATA' + ('' if a is None else f'={a}'))
        elif k == K_IMM: out.append(mn + ('#' if a is None else f'#{a}'))
        elif k in (K_REL, K_ABS): out.append(f"{mn}>{NAMES[a]}")
        elif k == K_OPR: out.append('OPR')
        else: out.append(('FUNC ' if k == K_FUNC else 'PROC ') + NAMES[a])
    return ' ; '.join(out)

class Decoded:
    pass

def decode_path(L, E, st, shape, syms, claims_out):
    """Independent decoding of the emitted file along the *source* order of directives.
    Appends (category, what, z3 claim) obligations to claims_out; returns a Decoded with addresses (concrete per path).
    Raises ValueError(text) when the byte stream cannot be parsed as the program at all."""
    bs_all = out_bytes(st)
    if any(isinstance(b, Undef) for b in bs_all): raise ValueError("uninitialised byte in the emitted file")
    if len(bs_all) < 4: raise ValueError("file shorter than its header")
    hdr = bs_all[:4]
    def prove_now(c):
        c = z3.simplify(c) if not isinstance(c, bool) else z3.BoolVal(c)
        if z3.is_true(c): return True
        if z3.is_false(c): return False
        ok, _ = E.sat(st, z3.Not(c)); return not ok
    body = bs_all[4:]
    pos = 0; addr = {}; pending = []; items = []      # items: per source directive (start, size, operand term)
    def hi(b): return (b >> 4) if is_c(b) else z3.LShR(bv(b, 8), 4)
    def eq(x, y):
        if is_c(x) and is_c(y): return (x & 0xffffffff) == (y & 0xffffffff) or z3.BoolVal(False)
        return bv(x, 32) == bv(y, 32) if not (is_c(x) and is_c(y)) else None
    for i, (k, mn, a) in enumerate(shape):
        if k in (K_LABEL, K_FUNC, K_PROC):
            pending.append((i, a)); items.append(None); continue
        if k == K_DATA:
            pad = (-pos) % 4
            for j in range(pad):
                if pos + j >= len(body): raise ValueError("file ends inside alignment padding")
                claims_out.append(('layout', f"alignment padding byte at {pos+j} is zero", (body[pos+j] == 0 or z3.BoolVal(False)) if is_c(body[pos+j]) else bv(body[pos+j], 8) == 0))
            pos += pad
        for (li, nm) in pending: addr.setdefault(nm, []).append((li, pos))
        pending = []
        if k == K_DATA:
            if pos + 4 > len(body): raise ValueError("file ends inside a DATA word")
            w = z3.Concat(*[bv(b, 8) for b in reversed(body[pos:pos+4])])
            val = syms.get(i, a)
            claims_out.append(('layout', f"DATA word #{i} at {pos} holds its value", w == bv(val & 0xffffffff if is_c(val) else val, 32)))
            items.append((pos, 4, None)); pos += 4; continue
        # instruction: consume prefix bytes
        start = pos
        while True:
            if pos >= len(body): raise ValueError(f"file ends inside instruction #{i}")
            h = hi(body[pos])
            if is_c(h):
                if h in (0xE, 0xF): pos += 1; continue
                break
            if prove_now(z3.Or(h == 0xE, h == 0xF)): pos += 1; continue
            if prove_now(z3.And(h != 0xE, h != 0xF)): break
            raise ValueError(f"byte {pos} of instruction #{i} is a prefix for some operand values and not for others")
        chunk = body[start:pos+1]
        if all(is_c(b) for b in chunk):
            _o, oreg, _l = prefix_fold_concrete(chunk)
        else:
            oreg, wf = prefix_fold(chunk, pos - start); oreg = simp(oreg)
        opc = self_opc(L, k, mn)
        h = hi(body[pos])
        claims_out.append(('layout', f"instruction #{i} ({mn}) has its opcode nibble", (h == opc or z3.BoolVal(False)) if is_c(h) else h == opc))
        pos += 1
        items.append((start, pos - start, oreg))
        if k == K_IMM:
            val = syms.get(i, a)
            claims_out.append(('layout', f"immediate of #{i} decodes to its value", eq(oreg, val)))
        elif k == K_OPR:
            claims_out.append(('layout', f"OPR #{i} operand", eq(oreg, L.OPRV[mn])))
    for (li, nm) in pending: addr.setdefault(nm, []).append((li, pos))
    end_code = pos
    total = (end_code + 3) // 4 * 4
    if len(body) < total: raise ValueError("file shorter than the padded image")
    for j in range(end_code, total):
        claims_out.append(('layout', f"trailing padding byte at {j} is zero", (body[j] == 0 or z3.BoolVal(False)) if is_c(body[j]) else bv(body[j], 8) == 0))
    hw = z3.Concat(*[bv(b, 8) for b in reversed(hdr)])
    claims_out.append(('layout', "header word equals the image size in words", hw == total // 4))
    d = Decoded(); d.addr = addr; d.items = items; d.total = total; d.debug = body[total:]; d.end_code = end_code
    # references
    for i, (k, mn, a) in enumerate(shape):
        if k not in (K_REL, K_ABS): continue
        defs = addr.get(a)
        if not defs: continue        # undefined label: the run must have thrown (checked by the caller)
        target = defs[-1][1]
        start, size, oreg = items[i]
        if k == K_REL:
            claims_out.append(('ref', f"relative reference #{i} ({mn} {NAMES[a]}) reaches its label: {start+size} + operand == {target}",
                               eq((start + size + oreg) & 0xffffffff if is_c(oreg) else z3.BitVecVal(start + size, 32) + oreg, target)))
        else:
            if target % 4: claims_out.append(('ref', f"absolute reference #{i} to unaligned label {NAMES[a]} (byte {target}) must be rejected, not truncated", z3.BoolVal(False)))
            else: claims_out.append(('ref', f"absolute reference #{i} ({mn} {NAMES[a]}) holds the word address {target//4}", eq(oreg, target // 4)))
    return d

def self_opc(L, k, mn):
    if k == K_OPR: return L.OPC['OPR']
    return L.OPC[mn]

def parse_debug(dbg):
    """debug section after the image: u32 count, strings, u32 count, (index, offset) pairs. Concrete bytes only."""
    bs = bytes(int(b) if is_c(b) else -1 for b in dbg) if all(is_c(b) for b in dbg) else None
    if bs is None: return None
    try:
        n = struct.unpack_from('<I', bs, 0)[0]; p = 4; names = []
        for _ in range(n):
            e = bs.index(0, p); names.append(bs[p:e].decode()); p = e + 1
        m = struct.unpack_from('<I', bs, p)[0]; p += 4; syms = []
        for _ in range(m):
            idx, off = struct.unpack_from('<II', bs, p); p += 8; syms.append((names[idx], off))
        return syms if p == len(bs) else None
    except Exception:
        return None

# ---------------------------------------------------------------- shape enumeration
def alphabet(labels=(0, 1), rel='BR', abs_='LDAM', imm='LDAC', func_name=4):
    al = [(K_LABEL, None, l) for l in labels]
    al += [(K_DATA, None, None), (K_IMM, imm, None)]
    al += [(K_REL, rel, l) for l in labels] + [(K_ABS, abs_, l) for l in labels]
    al += [(K_OPR, 'ADD', 0), (K_FUNC, None, func_name)]
    return al

def canonical(shape):
    """drop shapes that are A/B renamings of another shape, define a label twice, or contain no reference"""
    defs = [a for k, mn, a in shape if k == K_LABEL]
    if len(defs) != len(set(defs)): return False
    used = [a for k, mn, a in shape if k in (K_LABEL, K_REL, K_ABS)]
    if not any(k in (K_REL, K_ABS) for k, mn, a in shape): return False
    seen = []
    for a in used:
        if a not in seen: seen.append(a)
    return seen == list(range(len(seen)))

def enumerate_shapes(N, seed=0):
    """all programs of up to N directives over the alphabet, reduced by symmetry; representatives of the relative and
    absolute mnemonic classes are rotated through the shapes"""
    out = []
    for n in range(1, N + 1):
        for idx, combo in enumerate(itertools.product(range(9), repeat=n)):
            rel = REL_MN[(idx + seed) % len(REL_MN)]; ab = ABS_MN[(idx + seed) % len(ABS_MN)]
            al = alphabet(rel=rel, abs_=ab, imm=IMM_MNEMONICS[(idx + seed) % len(IMM_MNEMONICS)])
            shape = [al[c] for c in combo]
            if canonical(shape): out.append(shape)
    return out

def fill(k):
    """k bytes of straight-line code: 8-byte immediates plus one-byte OPRs"""
    return [(K_IMM, 'LDAC', 0x12345678)] * (k // 8) + [(K_OPR, 'ADD', 0)] * (k % 8)

def boundary_shapes(quick=True):
    """a forward and a backward reference across k bytes of code and one symbolic-immediate instruction whose size 1..8
    sweeps the distance through the encoding-length boundaries (k+1..k+8 covers 15..17, 255..257, 4095..4097, 65535..65537);
    chained references whose lengths depend on each other; layouts where DATA alignment absorbs a size change"""
    out = []
    ks = [10, 250, 4090] if quick else [10, 250, 4090, 65530]
    for k in ks:
        f = fill(k); imm = [(K_IMM, 'LDAC', None)]
        out.append([(K_REL, 'BR', 0)] + f + imm + [(K_LABEL, None, 0), (K_OPR, 'SVC', 0)])
        out.append([(K_LABEL, None, 0)] + f + imm + [(K_REL, 'BRZ', 0)])
        out.append([(K_REL, 'LDAP', 0)] + f + imm + [(K_LABEL, None, 0), (K_DATA, None, None)])
    f13 = [(K_OPR, 'ADD', 0)] * 13
    for tail in ([], [(K_DATA, None, None)]):
        out.append([(K_REL, 'BR', 0), (K_REL, 'BRN', 1)] + f13 + [(K_LABEL, None, 0), (K_IMM, 'LDAC', None), (K_LABEL, None, 1)] + tail)
        out.append([(K_LABEL, None, 0)] + f13 + [(K_REL, 'BR', 1), (K_REL, 'BR', 0), (K_LABEL, None, 1)] + tail)
        out.append([(K_REL, 'LDAP', 0), (K_IMM, 'LDAC', None), (K_LABEL, None, 0)] + tail + ([(K_ABS, 'LDAM', 0)] if tail else []))
    # two forward references over the same gap whose growth pushes each other across the 16-byte boundary
    for g in (12, 13, 14, 15):
        gap = [(K_OPR, 'ADD', 0)] * g
        out.append([(K_REL, 'BR', 0), (K_REL, 'BRZ', 0)] + gap + [(K_LABEL, None, 0), (K_OPR, 'SVC', 0)])
        out.append([(K_REL, 'BR', 0), (K_REL, 'BRZ', 1)] + gap + [(K_LABEL, None, 0), (K_IMM, 'LDAC', None), (K_LABEL, None, 1), (K_DATA, None, None), (K_ABS, 'LDAM', 1)])
    return out

# ---------------------------------------------------------------- per-shape analysis
def analyse_shape(L, shape):
    """run one shape through the engine; returns dict(stats=..., findings=[(cat, what, vals)])"""
    t0 = time.time()
    E, rs, syms, info = L.run_shape(shape)
    findings = []; stats = dict(paths=len(rs), ret=0, throw=0, cut=0, obligations=0, discharged=0); smt = []
    defined = [x for kk, m2, x in shape if kk in (K_LABEL, K_FUNC, K_PROC)]
    undefined = [a for k, mn, a in shape if k in (K_REL, K_ABS) and a not in defined]
    def vals_of(m):
        return {i: model_int(m, v) for i, v in syms.items()} if m is not None else {}
    for r in rs:
        st = r.st
        if r.kind == 'budget':
            stats['cut'] += 1; ok_, m = E.sat(st)
            findings.append(('hang', "layout does not finish within the step budget (possible non-termination of resolveLabels)", vals_of(m))); continue
        if r.kind == 'violation':
            ok_, m = E.sat(st)
            cat = 'uninit' if r.val.kind == 'uninitialised' else 'crash'
            findings.append((cat, f"{r.val.kind}: {r.val.msg} at {getattr(r.val, 'where', [''])[-1]}", vals_of(r.val.model or m))); continue
        if r.kind == 'abort':
            ok_, m = E.sat(st); findings.append(('crash', f"abort: {r.val}", vals_of(m))); continue
        if r.kind == 'throw':
            stats['throw'] += 1
            clean = E.ti_derives(st, r.val.tinfo, Ptr(('g', '_ZTISt9exception'), 0))
            ok_, m = E.sat(st)
            if not clean: findings.append(('crash', "foreign exception type escapes", vals_of(m)))
            if any(e[0] == 'open-write' for e in st.events):
                findings.append(('partial-output', "exception after the output file was created", vals_of(m)))
            continue
        stats['ret'] += 1
        n_out = r.val
        claims = []
        try:
            d = decode_path(L, E, st, shape, syms, claims)
        except ValueError as e:
            ok_, m = E.sat(st); findings.append(('layout', f"emitted file does not parse as the program: {e}", vals_of(m))); continue
        if undefined:
            ok_, m = E.sat(st); findings.append(('ref', f"reference to undefined label {NAMES[undefined[0]]} was accepted", vals_of(m)))
        # listing fields (C17): what emitProgramText prints from
        if is_c(n_out) and n_out == len(shape) + 1:
            for i, it in enumerate(d.items):
                if it is None: continue
                start, size, oreg = it
                tokv, off, sz, val, isl, asm_ = [E.load(st, info.add(24*i + 4*j), 4) for j in range(6)]
                claims.append(('listing', f"listed offset of directive #{i} equals where its encoding starts ({start})", bv(off, 32) == start))
                claims.append(('listing', f"listed size of directive #{i} equals the bytes it occupies ({size})", bv(sz, 32) == size))
                if shape[i][0] in (K_REL, K_ABS): claims.append(('listing', f"listed operand of label reference #{i} equals the encoded operand", bv(val, 32) == oreg))
        else:
            findings.append(('listing', f"program has {n_out} directives after assembly, expected {len(shape)+1}", {}))
        # debug symbols (C15-L): every FUNC/PROC once, ascending, with the offset of its first instruction
        fp = [(i, a) for i, (k, mn, a) in enumerate(shape) if k in (K_FUNC, K_PROC)]
        dbg = parse_debug(d.debug)
        if dbg is None: ok_, m = E.sat(st); findings.append(('debug', "debug section does not parse", vals_of(m)))
        else:
            want = [(NAMES[a], [p for (li, p) in d.addr.get(a, []) if li == i][0]) for i, a in fp]
            if dbg != want: ok_, m = E.sat(st); findings.append(('debug', f"symbol table {dbg} != procedures/functions with the byte offset of their first instruction {want}", vals_of(m)))
            elif [o for _, o in dbg] != sorted(o for _, o in dbg): findings.append(('debug', f"symbol table not ascending: {dbg}", {}))
        for cat, what, c in claims:
            stats['obligations'] += 1
            if c is True: stats['discharged'] += 1; continue
            c = z3.simplify(c) if not isinstance(c, bool) else z3.BoolVal(c)
            if z3.is_true(c): stats['discharged'] += 1; continue
            if z3.is_false(c): ok_, m = E.sat(st)
            else: ok_, m = E.sat(st, z3.Not(c))
            if ok_: findings.append((cat, what, vals_of(m)))
            else:
                stats['discharged'] += 1
                if len(smt) < 2 and not z3.is_false(c):
                    from lib.report import to_smt2
                    smt.append(('unsat', to_smt2(list(st.pc) + [z3.Not(c)]), what))
    for u in E.ub:
        findings.append(('ub', f"{u[0]}: {u[1]}", vals_of(u[2])))
    stats.update(queries=E.nq, solver_s=E.tq, steps=E.steps, wall=time.time() - t0, functions=sorted(E.called))
    return dict(shape=shape, stats=stats, findings=findings, smt=smt)

def concrete_check(L, shape, vals, line):
    """oracle on the native output line of asm_layout's driver; returns list of (cat, what) that fail natively"""
    if line.startswith('error'):
        return [('rejected', line)]
    parts = line.split('|'); hexs = parts[0].split()[1]; bs = list(bytes.fromhex(hexs))
    st = State(); st.events = [('byte', b) for b in bs]
    E = Engine(L.M)
    syms = {i: v & 0xffffffff for i, v in vals.items()}
    for i, (k, mn, a) in enumerate(shape):
        if k in (K_DATA, K_IMM) and a is None and i not in syms: syms[i] = 0
    claims = []; bad = []
    try:
        d = decode_path(L, E, st, shape, syms, claims)
    except ValueError as e:
        return [('layout', str(e))]
    lst = [tuple(int(x) for x in t.split(',')) for t in parts[1].split()]
    for i, it in enumerate(d.items):
        if it is None or i >= len(lst): continue
        start, size, oreg = it; tokv, off, sz, val = lst[i]
        if off != start: bad.append(('listing', f"listed offset {off} of directive #{i} but its encoding starts at {start}"))
        if sz != size: bad.append(('listing', f"listed size {sz} of directive #{i} but it occupies {size}"))
        if shape[i][0] in (K_REL, K_ABS) and (val & 0xffffffff) != simp(oreg): bad.append(('listing', f"listed operand {val} of #{i} but encoded {simp(oreg)}"))
    fp = [(i, a) for i, (k, mn, a) in enumerate(shape) if k in (K_FUNC, K_PROC)]
    dbg = parse_debug(d.debug)
    want = [(NAMES[a], [p for (li, p) in d.addr.get(a, []) if li == i][0]) for i, a in fp]
    if dbg != want: bad.append(('debug', f"symbol table {dbg} != {want}"))
    defined = [x for kk, m2, x in shape if kk in (K_LABEL, K_FUNC, K_PROC)]
    if any(k in (K_REL, K_ABS) and a not in defined for k, mn, a in shape): bad.append(('ref', "reference to undefined label accepted"))
    for cat, what, c in claims:
        if c is True: continue
        c = z3.simplify(c) if not isinstance(c, bool) else z3.BoolVal(c)
        if not z3.is_true(c): bad.append((cat, what))
    return bad

_L = None
def _worker(shape):
    global _L
    if _L is None: _L = Lay()
    try:
        return analyse_shape(_L, shape)
    except Exception as e:
        import traceback
        return dict(shape=shape, error=f"{type(e).__name__}: {e}", tb=traceback.format_exc()[-1500:], stats={}, findings=[])

def run_shapes(shapes, procs=16):
    Lay()       # build once before forking workers
    order = sorted(range(len(shapes)), key=lambda i: -len(shapes[i]))       # long programs first
    with multiprocessing.Pool(procs) as pool:
        res = pool.map(_worker, [shapes[i] for i in order], chunksize=1)
    out = [None] * len(shapes)
    for i, r in zip(order, res): out[i] = r
    return out

# ---------------------------------------------------------------- symbolic gap sizes (layout fixed point for every distance)
K_GAP = 8
GAP_MAX = 1 << 20

def gap_structures(R):
    """every arrangement of R relative references and their R labels (reference i names label i), modulo renaming,
    with a gap of symbolic size before, between and after the items"""
    items = [('r', i) for i in range(R)] + [('l', i) for i in range(R)]
    seen = set(); out = []
    for perm in itertools.permutations(items):
        # canonical: labels numbered in order of first appearance of either the reference or the label
        order = []
        for k, i in perm:
            if i not in order: order.append(i)
        canon = tuple((k, order.index(i)) for k, i in perm)
        if canon in seen: continue
        seen.add(canon); out.append(canon)
    return out

def gap_shape(struct, mnemonics=('BR', 'BRZ', 'BRN', 'LDAP')):
    shape = [(K_GAP, None, None)]
    for n, (k, i) in enumerate(struct):
        shape.append((K_REL, mnemonics[i % len(mnemonics)], i) if k == 'r' else (K_LABEL, None, i))
        shape.append((K_GAP, None, None))
    return shape

def analyse_gap_shape(L, shape):
    """layout only (emit = 0) with every gap size symbolic in [0, 2^20]: the fixed point must be consistent for every distance"""
    t0 = time.time()
    E = L.engine(); st = State(); n = len(shape)
    E.max_steps = 400000
    kinds = st.alloc(4*n, 'kinds'); toks = st.alloc(4*n, 'toks'); args = st.alloc(4*n, 'args'); info = st.alloc(24*(n+2), 'info')
    gaps = {}
    for i, (k, mn, a) in enumerate(shape):
        E.store(st, kinds.add(4*i), 4, k); E.store(st, toks.add(4*i), 4, L.TOK[mn] if mn else 0)
        if k == K_GAP:
            g = z3.BitVec(f'gap{i}', 32); gaps[i] = g; st.pc.append(z3.ULE(g, GAP_MAX)); v = g
        else: v = a
        E.store(st, args.add(4*i), 4, v)
    rs = E.run('l_run', [n, kinds, toks, args, info, 0, 0], st)
    findings = []; stats = dict(paths=len(rs), ret=0, throw=0, cut=0, obligations=0, discharged=0); smt = []
    def vals_of(m): return {i: model_int(m, g) for i, g in gaps.items()} if m is not None else {}
    for r in rs:
        s = r.st
        if r.kind == 'budget':
            stats['cut'] += 1; ok_, m = E.sat(s)
            findings.append(('hang', "layout does not reach a fixed point within the step budget (about 200 passes): possible non-termination of resolveLabels", vals_of(m))); continue
        if r.kind != 'ret':
            ok_, m = E.sat(s); findings.append(('crash', f"{r.kind}: {r.val}", vals_of(m))); continue
        stats['ret'] += 1
        inf = [[E.load(s, info.add(24*i + 4*j), 4) for j in range(6)] for i in range(n)]
        pos = z3.BitVecVal(0, 32); claims = []; labpos = {}
        for i, (k, mn, a) in enumerate(shape):
            tokv, off, sz, val, isl, asm_ = inf[i]
            claims.append(('layout', f"directive #{i} starts where the previous one ends", bv(off, 32) == pos))
            if k == K_LABEL: labpos[a] = pos
            pos = pos + bv(sz, 32)
        for i, (k, mn, a) in enumerate(shape):
            if k != K_REL: continue
            tokv, off, sz, val, isl, asm_ = inf[i]
            V = bv(val, 32); S = bv(sz, 32)
            claims.append(('ref', f"reference #{i} ({mn} {NAMES[a]}): offset + size + operand == address of its label", bv(off, 32) + S + V == labpos[a]))
            fits = z3.And(z3.UGE(S, 1), z3.ULE(S, 8),
                          z3.If(V >= 0, z3.Or(S == 8, z3.ULT(V, z3.BitVecVal(1, 32) << (4*S))),
                                z3.And(z3.UGE(S, 2), z3.Or(S == 8, V >= -(z3.BitVecVal(1, 32) << (4*S))))))
            claims.append(('ref', f"operand of reference #{i} fits the {sz}-byte encoding the layout gave it", fits))
        for cat, what, c in claims:
            stats['obligations'] += 1
            c = z3.simplify(c)
            if z3.is_true(c): stats['discharged'] += 1; continue
            ok_, m = E.sat(s, z3.Not(c))
            if ok_: findings.append((cat, what, vals_of(m)))
            else:
                stats['discharged'] += 1
                if len(smt) < 1:
                    from lib.report import to_smt2
                    smt.append(('unsat', to_smt2(list(s.pc) + [z3.Not(c)]), what))
    stats.update(queries=E.nq, solver_s=E.tq, steps=E.steps, wall=time.time() - t0, functions=sorted(E.called))
    return dict(shape=shape, stats=stats, findings=findings, smt=smt, gaps=True)

def gap_text(shape, vals):
    """assembly text realising a gap shape with concrete gap sizes (8-byte and 1-byte filler instructions)"""
    out = []
    for i, (k, mn, a) in enumerate(shape):
        if k == K_GAP:
            g = vals.get(i, 0)
            out += ["LDAC 305419896"] * (g // 8) + ["OPR ADD"] * (g % 8)
        elif k == K_REL: out.append(f"{mn} {NAMES[a]}")
        elif k == K_LABEL: out.append(NAMES[a])
    return '\n'.join(out) + '\n'

def _gap_worker(shape):
    global _L
    if _L is None: _L = Lay()
    try: return analyse_gap_shape(_L, shape)
    except Exception as e:
        import traceback
        return dict(shape=shape, error=f"{type(e).__name__}: {e}", tb=traceback.format_exc()[-1500:], stats={}, findings=[])

def run_gap_shapes(shapes, procs=16):
    Lay()
    with multiprocessing.Pool(procs) as pool:
        return pool.map(_gap_worker, shapes, chunksize=1)
