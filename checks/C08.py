#!/usr/bin/env python3
# C08: generated code stays inside its memory regions and balances the stack (DESIGN.md section 4, C08).
from tvrun import *
import C01

EXTRA = {
 'deep-recursion-300': xgen.HEAD + "func down(val n) is if n = 0 then return 0 else return 1 + down(n - 1) proc main() is 0(down(120) + s0)",
 'array-top-of-memory': "var s0; var s1; array big[1000]; array small[3]; proc main() is { big[999] := s0; big[0] := s1; small[2] := 1; small[0] := 2; 0(big[999] - big[0]) }",
 'array-symbolic-store': xgen.HEAD + "proc main() is var i; { i := get(0); if i < 4 then { a[i] := s0; 0(a[i]) } else 0(0) }",
 'main-returns-after-calls': xgen.HEAD + "proc p(val x) is put(x, 0) proc main() is { p('a'); p('b') }",
 'stop-inside-call': xgen.HEAD + "proc p(val x) is if x = 0 then stop else put(x, 0) proc main() is { p(s0); p(0) }",
}

def main():
    ck = Check('C08', 'translation_validation')
    jobs = jobs_for(ck) + [('c08:' + k, v, 2 if 'var s0; var s1;' in v else 0, 1, 6000) for k, v in EXTRA.items()]
    results = run_jobs(jobs)
    fold(ck, results)
    tv = TV()
    C01.report(ck, results, {'findings': ('memory',), 'monitor': ('store-to-code', 'sp-above', 'sp-unbalanced')}, tv)
    tv.close()
    for r in results[-3:]:
        ck.sample({'program': r['name'], 'status': r['status'], 'binary_paths': r['bin_paths'], 'image_words': r.get('nwords')})
    ck.cov['disagreements_checked'] = ck.cov['paths']
    ck.assume("monitor on the translation-validation runs of C01 (same programs, symbolic inputs and globals) plus deep-recursion and large-array programs",
              "every fetch, load and store of hexsim::Processor::run goes through the engine's array-region hooks: the word index must be < 200000 (solver query when symbolic); "
              "stores must miss every word from which an instruction is fetched before or after, and fall in a DATA word of the image or above the image; "
              "after every store to word 1 the value is <= the load-time value; when control reaches the return address of main, word 1 holds the load-time value",
              "fetches are identified through the trace() call the simulator makes per instruction (tracing on, trace cut to an event); data accesses through the opcode passed to trace()",
              "bounds as C01; paths cut by the budgets are counted and not claimed")
    ck.crosscheck()
    ck.finish("While each compiled program runs on hexsim's Processor::run in the engine (symbolic inputs, symbolic designated globals) a monitor checks every memory access: in range, no store into "
              "code words, stores only to DATA words or above the image, the stack pointer never above its load-time value and restored when main returns.")

if __name__ == '__main__':
    from lib.report import guarded
    guarded(main)
