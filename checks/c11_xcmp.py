# xcmp kernels for C11 (filled in with the xcmp harness; see checks/xk.py)
def run(ck):
    try:
        import xk
    except ImportError:
        return
    xk.c11_kernels(ck)
    import xfull
    xfull.c11_family(ck)
