# X family: the whole X compiler executed by the engine (harness/xfull.cpp: Lexer, Parser, CreateSymbols, ConstProp, OptimiseExpr,
# CodeGen, LowerDirectives, OptimiseDirectives, hexasm::CodeGen, emitProgramBin + listing fields) on a source text.
# Every heap and stack object starts indeterminate in the engine, so "the host's memory contents" is the universally
# quantified input: a value that nothing has written and that reaches a branch, an address, an emitted byte or a listing field
# is reported (C11). Crashes, out-of-bounds accesses and UB on the way are reported as such (used by C09-style obligations).
from common import *
import lexlib, time, multiprocessing, tempfile, shutil
sys.path.insert(0, os.path.join(build.VERIF, 'gen'))
import xgen

class XFull:
    def __init__(self):
        self.ll = build.ir('xfull.cpp'); self.M = parse_module(self.ll)

    def engine(self, chars):
        E = Engine(self.M); stubs.install(E); ostream_stubs(E)
        E.max_steps = 30_000_000
        for n, rs_ in lexlib.CLASSES.items():
            def f(E_, st, a, rs_=rs_):
                c = a[0]
                if is_c(c):
                    c = sgn(c & 0xffffffff, 32); return int(any(lo <= c <= hi for lo, hi in rs_))
                return z3.If(lexlib.in_set(c, rs_), z3.BitVecVal(1, 32), z3.BitVecVal(0, 32))
            E.stubs[n] = f
        def get(E_, st, a):
            pos = st.x.get('lexpos', 0)
            if pos < len(chars): E_.store(st, a[1], 1, chars[pos]); st.x['lexpos'] = pos + 1
            else:
                E_.store(st, a[0].add(lexlib.STATE_OFF), 4, 6)
                k = st.x.get('eofreads', 0) + 1; st.x['eofreads'] = k          # a reader that keeps asking at end of file is looping
                if k > 64: raise Budget('steps')
            return a[0]
        E.stubs['_ZNSi3getERc'] = get
        def strtoul(E_, st, a):
            base = a[2]
            if not is_c(base): raise Unsupported("strtoul base")
            bs = []
            p = a[0]; n = 0
            while True:
                b = E_.load(st, p.add(n), 1)
                if is_c(b) and b == 0: break
                bs.append(b); n += 1
                if n > 40: raise Unsupported("strtoul on a very long literal")
            if all(is_c(b) for b in bs):
                s_ = bytes(bs).decode('latin1')
                try: v = int(s_, base) if s_ else 0
                except ValueError:
                    # strtoul stops at the first character that is not a digit of the base
                    k = 0; digs = '0123456789abcdefghijklmnopqrstuvwxyz'[:base]
                    while k < len(s_) and s_[k].lower() in digs: k += 1
                    v = int(s_[:k], base) if k else 0
                return min(v, (1 << 64) - 1)
            if base not in (10, 16): raise Unsupported("symbolic literal in an unusual base")
            # strtoul consumes digits of the base and stops at the first other character; saturates at ULONG_MAX
            v = z3.BitVecVal(0, 64); sat = z3.BoolVal(False); stopped = z3.BoolVal(False)
            for b in bs:
                c = z3.ZeroExt(56, bv(b, 8))
                isd = z3.And(z3.UGE(c, 48), z3.ULE(c, 57)); d = c - 48
                if base == 16:
                    lo = z3.And(z3.UGE(c, 97), z3.ULE(c, 102)); up = z3.And(z3.UGE(c, 65), z3.ULE(c, 70))
                    d = z3.If(isd, c - 48, z3.If(lo, c - 87, c - 55)); isd = z3.Or(isd, lo, up)
                stopped = z3.Or(stopped, z3.Not(isd))
                wide = z3.ZeroExt(8, v) * base + z3.ZeroExt(8, d)
                sat = z3.Or(sat, z3.And(z3.Not(stopped), z3.UGT(wide, z3.BitVecVal((1 << 64) - 1, 72))))
                v = z3.If(stopped, v, z3.Extract(63, 0, wide))
            return simp(z3.If(sat, z3.BitVecVal((1 << 64) - 1, 64), v))
        E.stubs['strtoul'] = strtoul
        E.stubs['_ZNSt14basic_ifstreamIcSt11char_traitsIcEE5closeEv'] = stubs.s_nop
        stubs.boost_format_stubs(E)          # generated label names (_const%d, _string%d) and diagnostic text
        return E

    def run(self, chars, deadline_s=None):
        """-> (engine, [PathResult]); a returning path has the image bytes as ('byte', b) events followed by the listing records"""
        E = self.engine(chars)
        if deadline_s: E.deadline = time.time() + deadline_s
        st = State()
        s = st.alloc(520, 'istream'); st.wobj(s.obj).zero.append((0, 520))
        E.store(st, s, 8, Ptr(('g', '_ZTTSt14basic_ifstreamIcSt11char_traitsIcEE$fakevt'), 24))
        b = st.alloc(8, 'bin-stream'); l = st.alloc(8, 'listing-stream')
        self.bin_stream = b; self.lst_stream = l
        return E, E.run('xf_compile', [s, b, l], st)

def native_image(src, workdir):
    """the binary the real xcmp (built from the working tree) writes for src; None when it rejects the program"""
    p = os.path.join(workdir, 'p.x'); open(p, 'wb').write(src if isinstance(src, bytes) else src.encode())
    out = os.path.join(workdir, 'p.bin')
    if os.path.exists(out): os.remove(out)
    r = subprocess.run([build.tool('xcmp'), 'p.x', '-o', 'p.bin'], cwd=workdir, capture_output=True, timeout=60)
    if r.returncode != 0 or not os.path.exists(out): return None, r.returncode
    return open(out, 'rb').read(), 0

def analyse(X, name, src, workdir):
    """one program: every path of the compiler; findings [(category, what)]"""
    t0 = time.time()
    data = src.encode() if isinstance(src, str) else src
    E, rs = X.run(list(data), deadline_s=120)
    out = dict(name=name, findings=[], paths=len(rs), steps=E.steps, queries=E.nq, solver_s=E.tq, functions=sorted(E.called), status=None, image_matches_native=None)
    for r in rs:
        if r.kind == 'budget': out['findings'].append(('budget', "compilation does not finish within the step/time budget")); continue
        if r.kind == 'violation':
            cat = 'uninit' if r.val.kind == 'uninitialised' else 'crash'
            out['findings'].append((cat, f"{r.val.kind}: {r.val.msg} at {(getattr(r.val, 'where', None) or [''])[-1]}")); continue
        if r.kind == 'abort': out['findings'].append(('crash', f"abort: {r.val}")); continue
        if r.kind == 'throw':
            clean = E.ti_derives(r.st, r.val.tinfo, Ptr(('g', '_ZTISt9exception'), 0))
            if not clean: out['findings'].append(('crash', "foreign exception type escapes"))
            if any(e[0] == 'byte' for e in r.st.events): out['findings'].append(('partial-output', "exception after output was written"))
            out['status'] = 'rejected'; continue
        bs = out_bytes(r.st)
        nrec = r.val if is_c(r.val) else None
        if nrec is None: out['findings'].append(('crash', "symbolic directive count")); continue
        img, lst = bs[:len(bs) - 16*nrec], bs[len(bs) - 16*nrec:]
        bad = [i for i, b in enumerate(img) if isinstance(b, Undef) and b.why != 'partial poison']
        if bad: out['findings'].append(('uninit', f"image byte {bad[0]} (of {len(img)}) is an indeterminate value: {img[bad[0]].why}"))
        badl = [i for i, b in enumerate(lst) if isinstance(b, Undef) and b.why != 'partial poison']
        if badl: out['findings'].append(('uninit', f"listing field {badl[0] // 4 % 4} of directive {badl[0] // 16} is an indeterminate value"))
        out['status'] = 'compiled'
        if not bad and all(is_c(b) for b in img):
            # engine validation: the same source through the natively built compiler gives the same image (header + code; the
            # native file continues with the debug section, which emitProgramBin does not write)
            nat, rc = native_image(data, workdir)
            if nat is None: out['image_matches_native'] = False; out['findings'].append(('engine-mismatch', f"the engine compiles the program, the native xcmp exits {rc}"))
            else:
                n = len(img) - 0
                out['image_matches_native'] = bytes(img) == nat[4:4 + len(img)] if len(nat) >= 4 + len(img) else False
                if not out['image_matches_native']: out['findings'].append(('engine-mismatch', "image bytes differ from the native compiler's"))
    for kind, what, m, pc_ in E.ub: out['findings'].append(('ub', f"{kind}: {what}"))
    out['wall'] = time.time() - t0
    return out

_X = None; _W = None
def _worker(job):
    global _X, _W
    name, src = job
    if _X is None:
        _X = XFull(); _W = tempfile.mkdtemp(dir=os.path.join(build.VERIF, 'build'))
        import atexit; atexit.register(lambda: shutil.rmtree(_W, ignore_errors=True))
    try: return analyse(_X, name, src, _W)
    except Exception as e:
        import traceback
        return dict(name=name, error=f"{type(e).__name__}: {e}", tb=traceback.format_exc()[-1200:], findings=[], paths=0, steps=0, queries=0, solver_s=0, functions=[])

def run_programs(jobs, procs=16, per_job_s=300):
    XFull(); build.tool('xcmp')
    out = [None] * len(jobs)
    with multiprocessing.Pool(procs) as pool:
        hs = [pool.apply_async(_worker, (j,)) for j in jobs]
        for i, h in enumerate(hs):
            try: out[i] = h.get(timeout=per_job_s)
            except multiprocessing.TimeoutError: out[i] = dict(name=jobs[i][0], error='timeout', findings=[], paths=0, steps=0, queries=0, solver_s=0, functions=[])
    return out

# programs the compiler accepts although they are unusual: their compilation must still be a function of the source alone
UNUSUAL = {
 'assign-local-val': "val exit = 0; proc main() is val limit = 3; var i; { i := 7; limit := i; exit(limit) }",
 'assign-global-val': "val exit = 0; val k = 3; proc main() is { k := 4; exit(k) }",
 'assign-formal': "val exit = 0; proc p(val x) is { x := x + 1; exit(x) } proc main() is p(1)",
 'unused-everything': "val exit = 0; val u = 9; var v; array w[3]; proc q(val a, array b) is skip func h() is return 1 proc main() is exit(0)",
 'shadow-global': "val exit = 0; var x; proc main() is var x; { x := 2; exit(x) }",
 'shadow-formal': "val exit = 0; var x; proc p(val x) is exit(x) proc main() is p(5)",
 'local-val-chain': "val exit = 0; proc main() is val a = 2; val b = a + 3; var c; { c := b; exit(c + a) }",
 'local-val-unused': "val exit = 0; proc main() is val a = 2; var c; { c := 1; exit(c) }",
 'forward-call': "val exit = 0; proc main() is later(3) proc later(val x) is exit(x)",
 'func-no-return': "val exit = 0; func f() is skip proc main() is exit(f())",
 'return-in-proc': "val exit = 0; proc p() is return 3 proc main() is { p(); exit(0) }",
 'func-as-proc': "val exit = 0; func f(val x) is return x proc main() is { f(1); exit(0) }",
 'proc-in-expr': "val exit = 0; proc p(val x) is skip proc main() is exit(p(1) + 1)",
 'array-arg': "val exit = 0; array t[4]; proc fill(array a, val n) is a[n] := n proc main() is { fill(t, 2); exit(t[2]) }",
 'array-local-formal': "val exit = 0; array t[4]; func get1(array a) is return a[1] proc main() is { t[1] := 6; exit(get1(t)) }",
 'empty-string': 'val exit = 0; proc main() is var s; { s := ""; exit(0) }',
 'string-arg': 'val exit = 0; func first(array s) is return s[0] proc main() is exit(first("abc"))',
 'nested-blocks': "val exit = 0; proc main() is { { { skip } }; exit(0) }",
 'while-never': "val exit = 0; proc main() is { while false do skip; exit(0) }",
 'if-nested-empty': "val exit = 0; proc main() is if true then if false then skip else skip else exit(1)",
 'many-locals': "val exit = 0; proc main() is var a; var b; var c; var d; var e; var f; var g; var h; { a := 1; h := a; exit(h) }",
 'val-of-val': "val exit = 0; val a = 3; val b = a; val c = b + a; proc main() is exit(c)",
 'hex-and-char': "val exit = 0; val h = #7F; proc main() is exit(h + 'a')",
 'negative-array-index-const': "val exit = 0; array t[2]; proc main() is { t[0] := 1; exit(t[0]) }",
 'recursion-mutual': "val exit = 0; func ev(val n) is if n = 0 then return 1 else return od(n - 1) func od(val n) is if n = 0 then return 0 else return ev(n - 1) proc main() is exit(ev(4))",
 'syscall-by-number': "proc main() is 0(3)",
 'val-proc-same-name-scope': "val exit = 0; proc p() is val p = 2; exit(p) proc main() is p()",
}

def program_set(tier, seed=0):
    progs = [('unusual:' + k, v) for k, v in UNUSUAL.items()]
    gen = xgen.programs('quick', seed)
    progs += [(n, s) for n, s in gen if n.startswith('skeleton:')]
    rest = [(n, s) for n, s in gen if not n.startswith('skeleton:')]
    progs += rest if tier == 'thorough' else rest[seed % 6::6]
    if tier == 'thorough': progs += [(n, s) for n, s in xgen.programs('thorough', seed) if not n.startswith('skeleton:')][seed % 10::10]
    seen = set(); out = []
    for n, s in progs:
        if s in seen: continue
        seen.add(s); out.append((n, s))
    return out

def native_perturbed(src):
    """binaries and listings the real xcmp produces under different heap fills"""
    d = tempfile.mkdtemp(dir=os.path.join(build.VERIF, 'build')); outs = set()
    try:
        open(os.path.join(d, 'p.x'), 'w').write(src + "\n")
        for fill in ('1', '90', '165', '255'):
            env = dict(os.environ, MALLOC_PERTURB_=fill)
            r1 = subprocess.run([build.tool('xcmp'), 'p.x', '-o', 'p.bin'], cwd=d, capture_output=True, env=env, timeout=60)
            r2 = subprocess.run([build.tool('xcmp'), 'p.x', '-S'], cwd=d, capture_output=True, env=env, timeout=60)
            b = open(os.path.join(d, 'p.bin'), 'rb').read() if os.path.exists(os.path.join(d, 'p.bin')) else b''
            outs.add((r1.returncode, b, r2.stdout))
    finally: shutil.rmtree(d, ignore_errors=True)
    return len(outs)

def c11_family(ck):
    """C11 for xcmp: the whole compiler on every program of the set with all heap/stack contents indeterminate"""
    jobs = program_set(ck.tier, ck.seed)
    results = run_programs(jobs)
    n_ok = n_rej = n_match = 0
    for (name, src), r in zip(jobs, results):
        if r.get('error'): ck.fail_inconclusive(f"whole-compiler run of {name}: {r['error']}"); continue
        ck.cov['paths'] += r['paths']; ck.cov['queries'] += r['queries']; ck.cov['solver_s'] += r['solver_s']; ck.cov['ir_steps'] += r['steps']
        ck.cov['functions'] |= set(r['functions'])
        n_ok += r.get('status') == 'compiled'; n_rej += r.get('status') == 'rejected'; n_match += bool(r.get('image_matches_native'))
        cats = [c for c, w in r['findings']]
        ck.obligation('uninit' not in cats)
        seen = set()
        for cat, what in r['findings']:
            if cat in seen: continue
            seen.add(cat)
            if cat == 'uninit':
                k = native_perturbed(src)
                key = f"xcmp-uninit:{name}"
                ck.violation(key, f"compiling [{name}] uses memory nothing has written: {what} (the native xcmp gives {k} distinct binary/listing results under 4 heap fills)",
                             ck.replay_file(key, {'source': src, 'finding': what, 'distinct_native_results_under_MALLOC_PERTURB_': k}), True)
            elif cat == 'engine-mismatch':
                ck.fail_inconclusive(f"[{name}] {what}: the engine's run of the compiler and the native compiler disagree (stub or engine defect, or a compilation that depends on more than the source)")
            elif cat in ('crash', 'ub', 'budget', 'partial-output'):
                ck.ub_only.append({'kind': cat, 'what': what, 'program': name})
    ck.cov['harnesses'].append('xf_compile: xcmp Lexer..OptimiseDirectives, hexasm::CodeGen, emitProgramBin, listing fields')
    ck.sample({'family': 'whole compiler, host memory indeterminate', 'programs': len(jobs), 'compiled': n_ok, 'rejected': n_rej,
               'images_identical_to_native_xcmp': n_match})
    return results

# ---------------------------------------------------------------- token level: the parser driven by an arbitrary token sequence
IDENT_POOL = [b'main', b'x', b'f']
STRING_POOL = [b'', b'ab']

class XTokens(XFull):
    """Lexer::readToken is replaced by a source of arbitrary tokens: each call returns a fresh symbolic token kind (the
    parser's own switches fork on it), an identifier from a small pool, a symbolic 32-bit number, a string from a pool;
    after `ntok` tokens the source is at END_OF_FILE. Every token sequence of up to ntok tokens is covered."""
    def __init__(self):
        super().__init__()
        self.TOK = read_enum(os.path.join(build.REPO, 'xcmp.hpp'), 'Token')
        E = Engine(self.M); stubs.install(E); st = State(); p = st.alloc(4096, 'lexer-probe')
        self.foff = []
        for k in range(4):
            st, q = E.run1('xf_lexer_field', [p, k], st); self.foff.append(q.off - p.off)

    def run_tokens(self, ntok, deadline_s=None, max_paths=200000):
        E = self.engine([]); E.max_paths = max_paths
        if deadline_s: E.deadline = time.time() + deadline_s
        T = self.TOK; NT = max(T.values())
        def readToken(E_, st, a):
            lx = a[0]; n = st.x.get('ntok', 0)
            if n >= ntok: return T['END_OF_FILE']
            t = z3.BitVec(f'tok{n}', 32)
            if n == st.x.get('ntok_constrained', -1) + 1:
                pass
            r = None
            if E_.branch(st, t == T['IDENTIFIER']):
                k = E_.choose(st, len(IDENT_POOL)); S = stubs.Str(E_, st, lx.add(self.foff[0])); S.assign_bytes(list(IDENT_POOL[k])); r = T['IDENTIFIER']
                st.x['toklog'] = st.x.get('toklog', ()) + (('id', IDENT_POOL[k]),)
            elif E_.branch(st, t == T['NUMBER']):
                v = z3.BitVec(f'num{n}', 32); E_.store(st, lx.add(self.foff[1]), 4, v); r = T['NUMBER']
                st.x['toklog'] = st.x.get('toklog', ()) + (('num', v),)
            elif E_.branch(st, t == T['STRING']):
                k = E_.choose(st, len(STRING_POOL)); S = stubs.Str(E_, st, lx.add(self.foff[2])); S.assign_bytes(list(STRING_POOL[k])); r = T['STRING']
                st.x['toklog'] = st.x.get('toklog', ()) + (('str', STRING_POOL[k]),)
            elif E_.branch(st, t == T['END_OF_FILE']):
                r = T['END_OF_FILE']; st.x['toklog'] = st.x.get('toklog', ()) + (('tok', r),)
            else:
                E_.assume(st, z3.ULE(t, NT)); r = t
                st.x['toklog'] = st.x.get('toklog', ()) + (('tok', t),)
            st.x['ntok'] = n + 1
            return r
        E.stubs['_ZN4xcmp5Lexer9readTokenEv'] = readToken
        st = State(); b = st.alloc(8, 'bin-stream'); l = st.alloc(8, 'listing-stream')
        return E, E.run('xf_compile_tokens', [b, l], st)

    def token_text(self, E, st):
        """source text of the token sequence of a path (a model picks the tokens still symbolic)"""
        inv = {v: k for k, v in self.TOK.items()}
        ok, m = E.sat(st)
        SP = {'LBRACKET': '[', 'RBRACKET': ']', 'LPAREN': '(', 'RPAREN': ')', 'ASS': ':=', 'BEGIN': '{', 'END': '}', 'SEMICOLON': ';', 'COMMA': ',', 'NOT': '~',
              'PLUS': '+', 'MINUS': '-', 'EQ': '=', 'NE': '~=', 'LS': '<', 'LE': '<=', 'GR': '>', 'GE': '>=', 'NONE': '@', 'END_OF_FILE': ''}
        out = []
        for kind, v in st.x.get('toklog', ()):
            if kind == 'id': out.append(v.decode())
            elif kind == 'num': out.append(str(model_int(m, v)) if m is not None else '0')
            elif kind == 'str': out.append('"' + v.decode() + '"')
            else:
                t = v if is_c(v) else (model_int(m, v) if m is not None else 0)
                nm = inv.get(t, 'NONE'); out.append(SP.get(nm, nm.lower()))
        return ' '.join(out)

# ---------------------------------------------------------------- C09 machinery: prefixes, job kinds, confirmation
import re as _re
KEYWORDS = {'and': 'AND', 'array': 'ARRAY', 'do': 'DO', 'else': 'ELSE', 'false': 'FALSE', 'func': 'FUNC', 'if': 'IF', 'is': 'IS', 'or': 'OR', 'proc': 'PROC',
            'return': 'RETURN', 'skip': 'SKIP', 'stop': 'STOP', 'then': 'THEN', 'true': 'TRUE', 'val': 'VAL', 'var': 'VAR', 'while': 'WHILE'}
SYMBOLS = {'[': 'LBRACKET', ']': 'RBRACKET', '(': 'LPAREN', ')': 'RPAREN', ':=': 'ASS', '{': 'BEGIN', '}': 'END', ';': 'SEMICOLON', ',': 'COMMA', '~': 'NOT',
           '+': 'PLUS', '-': 'MINUS', '=': 'EQ', '~=': 'NE', '<': 'LS', '<=': 'LE', '>': 'GR', '>=': 'GE'}

def tokenize(text):
    """token list of a (well-formed) prefix text: [(kind name, payload)]"""
    out = []
    for m in _re.finditer(r'\s*(?:([A-Za-z][A-Za-z0-9_]*)|(\d+)|(:=|~=|<=|>=|[\[\](){};,~+\-=<>]))', text):
        if m.group(1): out.append((KEYWORDS[m.group(1)], None) if m.group(1) in KEYWORDS else ('IDENTIFIER', m.group(1).encode()))
        elif m.group(2): out.append(('NUMBER', int(m.group(2))))
        else: out.append((SYMBOLS[m.group(3)], None))
    return out

CONTEXT = "val exit = 0; val k = 3; var x; array t[3]; func f(val a) is return a proc p(val a) is skip proc main() is"
BODY_POOL = [b'x', b't', b'f', b'p', b'u', b'k']

def run_token_job(X, ntok, first=None, prefix=None, pool=None, deadline_s=None):
    """all token sequences: `prefix` (concrete tokens) followed by ntok arbitrary tokens, the first of them fixed to `first`
    when given (work splitting), then END_OF_FILE"""
    pre = tokenize(prefix) if prefix else []
    names = pool or IDENT_POOL
    E = X.engine([]); E.max_paths = 400000; E.max_steps = 3_000_000
    if deadline_s: E.deadline = time.time() + deadline_s
    T = X.TOK; NT = max(T.values())
    def log(st, item): st.x['toklog'] = st.x.get('toklog', ()) + (item,)
    def readToken(E_, st, a):
        lx = a[0]; n = st.x.get('ntok', 0)
        if n < len(pre):
            kind, pay = pre[n]
            if kind == 'IDENTIFIER': stubs.Str(E_, st, lx.add(X.foff[0])).assign_bytes(list(pay)); log(st, ('id', pay))
            elif kind == 'NUMBER': E_.store(st, lx.add(X.foff[1]), 4, pay); log(st, ('num', pay))
            else: log(st, ('tok', T[kind]))
            st.x['ntok'] = n + 1; return T[kind]
        if n >= len(pre) + ntok: return T['END_OF_FILE']
        t = z3.BitVec(f'tok{n}', 32)
        fixed = firsts.get(n - len(pre))
        if fixed is not None and not any(c is fixed for c in st.pc): E_.assume(st, fixed)      # assume() also drops a cached model that contradicts it
        if E_.branch(st, t == T['IDENTIFIER']):
            k = E_.choose(st, len(names)); stubs.Str(E_, st, lx.add(X.foff[0])).assign_bytes(list(names[k])); r = T['IDENTIFIER']; log(st, ('id', names[k]))
        elif E_.branch(st, t == T['NUMBER']):
            v = z3.BitVec(f'num{n}', 32); E_.store(st, lx.add(X.foff[1]), 4, v); r = T['NUMBER']; log(st, ('num', v))
        elif E_.branch(st, t == T['STRING']):
            k = E_.choose(st, len(STRING_POOL)); stubs.Str(E_, st, lx.add(X.foff[2])).assign_bytes(list(STRING_POOL[k])); r = T['STRING']; log(st, ('str', STRING_POOL[k]))
        elif E_.branch(st, t == T['END_OF_FILE']): r = T['END_OF_FILE']; log(st, ('tok', r))
        else:
            E_.assume(st, z3.ULE(t, NT)); r = t; log(st, ('tok', t))
        st.x['ntok'] = n + 1
        return r
    # work splitting: the kinds of the first symbolic tokens may be fixed (an int, or a tuple for the first few positions)
    fl = () if first is None else (first if isinstance(first, tuple) else (first,))
    firsts = {i: (z3.BitVec(f'tok{len(pre) + i}', 32) == v) for i, v in enumerate(fl)}
    E.stubs['_ZN4xcmp5Lexer9readTokenEv'] = readToken
    st = State(); b = st.alloc(8, 'bin-stream'); l = st.alloc(8, 'listing-stream')
    return E, E.run('xf_compile_tokens', [b, l], st)

def render_tokens(X, toklog, m):
    inv = {v: k for k, v in X.TOK.items()}
    SP = {v: k for k, v in SYMBOLS.items()}; SP.update({'NONE': '@', 'END_OF_FILE': ''})
    out = []
    for kind, v in toklog:
        if kind == 'id': out.append(v.decode())
        elif kind == 'num': out.append(str(v if is_c(v) else (model_int(m, v) if m is not None else 0)))
        elif kind == 'str': out.append('"' + v.decode() + '"')
        else:
            t = v if is_c(v) else (model_int(m, v) if m is not None else 0)
            nm = inv.get(t, 'NONE'); out.append(SP.get(nm, nm.lower()))
    return ' '.join(x for x in out if x)

def classify(X, E, rs, text_of):
    """findings [(category, what, source text)] of a set of compiler paths; text_of(x_dict, model) renders the input"""
    out = []; stats = dict(paths=len(rs), compiled=0, rejected=0)
    def txt(st, m=None):
        if m is None:
            ok_, m = E.sat(st)
        return text_of(st.x, m)
    for r in rs:
        if r.kind == 'ret':
            stats['compiled'] += 1
            bs = out_bytes(r.st)
            # bytes cut out of a poison-carrying value are not indeterminate memory: the poison (signed overflow) is reported where it reaches a branch
            if any(isinstance(b, Undef) and b.why != 'partial poison' for b in bs): out.append(('uninit', "an emitted byte or listing field is an indeterminate value", txt(r.st)))
            continue
        if r.kind == 'throw':
            stats['rejected'] += 1
            if not E.ti_derives(r.st, r.val.tinfo, Ptr(('g', '_ZTISt9exception'), 0)): out.append(('crash', "an exception that is not derived from std::exception escapes", txt(r.st)))
            elif any(e[0] == 'byte' for e in r.st.events): out.append(('partial-output', "a diagnostic is raised after output was emitted", txt(r.st)))
            continue
        if r.kind == 'budget':
            # depth: the engine's 400-frame limit (the native run decides); steps/deadline: the exploration is incomplete
            out.append(('budget' if r.val == 'depth' else 'incomplete', f"compilation does not finish within the engine's {r.val or 'step'} budget", txt(r.st))); continue
        if r.kind == 'violation':
            cat = 'uninit' if r.val.kind == 'uninitialised' else 'crash'
            out.append((cat, f"{r.val.kind}: {r.val.msg} at {(getattr(r.val, 'where', None) or [''])[-1]}", txt(r.st, getattr(r.val, 'model', None)))); continue
        out.append(('crash', f"{r.kind}: {r.val}", txt(r.st)))
    for (kind, what, m, pc_), x_ in zip(E.ub, E.ub_x): out.append(('ub', f"{kind}: {what}", text_of(x_, m)))
    return out, stats

# ---------------------------------------------------------------- literals: source text -> the constant the program loads
def _lit_case(case):
    ck = Check('C99', 'other'); ck.tier = 'quick'
    try: literal_cases(ck, [case])
    except Exception as e:
        import traceback
        return dict(error=f"{type(e).__name__}: {e}", tb=traceback.format_exc()[-800:])
    c = ck.cov
    return dict(violations=ck.violations, inconclusive=ck.inconclusive, cov={k: c[k] for k in ('paths', 'queries', 'solver_s', 'ir_steps', 'obligations', 'discharged')}, functions=sorted(c['functions'])[:300], fq=ck.final_queries[:1])

def literal_kernel(ck, max_dec=10, max_hex=8):
    """parallel driver of literal_cases"""
    cases = [('dec', n) for n in range(1, max_dec + 1)] + [('hex', n) for n in range(1, max_hex + 1)]
    if ck.tier == 'quick': cases = [c for c in cases if c in (('dec', 1), ('dec', 2), ('dec', 3), ('dec', 4), ('dec', max_dec), ('hex', 1), ('hex', 4), ('hex', max_hex))]     # the longest ones carry the 2^32 boundary
    XFull()
    with multiprocessing.Pool(16) as pool:
        hs = [pool.apply_async(_lit_case, (c,)) for c in cases]
        for c, h in zip(cases, hs):
            try: r = h.get(timeout=1500)
            except multiprocessing.TimeoutError: ck.fail_inconclusive(f"X literal kernel {c}: timeout"); continue
            if r.get('error'): ck.fail_inconclusive(f"X literal kernel {c}: {r['error']}"); continue
            for k in ('paths', 'queries', 'solver_s', 'ir_steps', 'obligations', 'discharged'): ck.cov[k] += r['cov'][k]
            ck.cov['functions'] |= set(r['functions'])
            if len(ck.final_queries) < 40: ck.final_queries += r['fq']
            for key, what, rp in r['violations']: ck.violation(key, what, rp, True)
            for msg in r['inconclusive']: ck.fail_inconclusive(msg)
    ck.sample({'kernel': 'X literals: source text -> constant loaded', 'cases': [f'{k}{n}' for k, n in cases]})

def literal_cases(ck, cases):
    """`proc main() is 0(<literal>)` with every digit a symbol, through the whole compiler: on every path the constant the
    generated code loads (an LDAC immediate or a constant-pool DATA word - the only symbolic value fields of the listing) is
    the literal's value mod 2^32. Decimal literals of 1..max_dec digits (value < 2^32) and hex literals #h..h of 1..max_hex digits."""
    X = XFull()
    for kind, n in cases:
        ds = [z3.BitVec(f'{kind}{n}_{i}', 8) for i in range(n)]
        if kind == 'dec':
            pre = [z3.And(z3.UGE(d, 48), z3.ULE(d, 57)) for d in ds]
            V = z3.BitVecVal(0, 64)
            for d in ds: V = V * 10 + (z3.ZeroExt(56, d) - 48)
            pre.append(z3.ULT(V, 1 << 32)); lit = ds
        else:
            def hv(d):
                c = z3.ZeroExt(56, d)
                return z3.If(z3.ULE(c, 57), c - 48, z3.If(z3.UGE(c, 97), c - 87, c - 55))
            pre = [z3.Or(z3.And(z3.UGE(d, 48), z3.ULE(d, 57)), z3.And(z3.UGE(d, 65), z3.ULE(d, 70)), z3.And(z3.UGE(d, 97), z3.ULE(d, 102))) for d in ds]
            V = z3.BitVecVal(0, 64)
            for d in ds: V = V * 16 + hv(d)
            lit = [ord('#')] + ds
        src = list(b"proc main() is 0(") + lit + list(b")\n")
        E = X.engine(src); st = State(); st.pc = list(pre)
        s = st.alloc(520, 'istream'); st.wobj(s.obj).zero.append((0, 520))
        E.store(st, s, 8, Ptr(('g', '_ZTTSt14basic_ifstreamIcSt11char_traitsIcEE$fakevt'), 24))
        b = st.alloc(8, 'bin-stream'); l = st.alloc(8, 'listing-stream')
        for r in E.run('xf_compile', [s, b, l], st):
            def text(m): return ''.join(chr(model_int(m, c)) if not is_c(c) else chr(c) for c in lit) if m is not None else '?'
            if r.kind != 'ret':
                ok_, m = E.sat(r.st)
                ck.violation(f"x-literal:{kind}:{n}:{r.kind}", f"compiling `0({text(m)})` ends in {r.kind}: {str(r.val)[:160]}", None); continue
            bs = out_bytes(r.st); nrec = r.val
            lst = bs[len(bs) - 16*nrec:]
            vals = []
            for k in range(nrec):
                w = lst[16*k + 12:16*k + 16]
                if any(isinstance(x, Undef) for x in w): continue
                if not all(is_c(x) for x in w): vals.append(z3.Concat(*[bv(x, 8) for x in reversed(w)]))
            claim = z3.And([v == z3.Extract(31, 0, V) for v in vals]) if vals else z3.BoolVal(False)
            ok, m = ck.prove(E, r.st, claim, f"{kind} literal of {n} digits: the constant the code loads is the literal's value")
            if not ok:
                t = text(m); key = f"x-literal:{t}"
                got = [str(m.eval(v, model_completion=True)) for v in vals]
                ck.violation(key, f"the literal {t} is compiled to the constant(s) {got or 'none'}", ck.replay_file(key, {'source': f"proc main() is 0({t})", 'constants_loaded': got}), confirm_literal(t))
        ck.engine(E, 'whole compiler on a literal with symbolic digits')

def confirm_literal(t):
    """native: compile `proc main() is 0(<t>)` with the real xcmp, run it on the real hexsim: the exit status must be value & 0xff"""
    d = tempfile.mkdtemp(dir=os.path.join(build.VERIF, 'build'))
    try:
        open(os.path.join(d, 'p.x'), 'w').write(f"proc main() is 0({t})\n")
        r = subprocess.run([build.tool('xcmp'), 'p.x', '-o', 'p.bin'], cwd=d, capture_output=True, timeout=60)
        if r.returncode != 0: return True
        r2 = subprocess.run([build.tool('hexsim'), 'p.bin'], cwd=d, capture_output=True, timeout=60)
        v = int(t[1:], 16) if t.startswith('#') else int(t)
        return r2.returncode != (v & 0xff)
    finally: shutil.rmtree(d, ignore_errors=True)
