#!/usr/bin/env python3
# C04: assembler prefix encoding reconstructs every 32-bit operand exactly (DESIGN.md section 4, C04).
from common import *

def main():
    ck = Check('C04', 'other')
    rnd = random.Random(ck.seed)
    ll = build.ir('asm_kernels.cpp'); nat = build.native('asm_kernels.cpp', extra=['-DNATIVE_DRIVER'])
    M = parse_module(ll)
    TOK = asm_tokens(); OPC = hex_instrs()

    # ---- engine self-check: concrete vectors through native code and through the interpreter
    E = Engine(M); stubs.install(E)
    vecs = [0, 1, -1, 15, 16, -15, -16, -17, 255, 256, -255, -256, -257, 65535, 65536, 0x7fffffff, -0x7fffffff] + \
           [rnd.randint(-2**31 + 1, 2**31 - 1) for _ in range(40)]
    text = ''.join(f"numNibbles {v}\nimmSize {v}\n" for v in vecs) + ''.join(f"instrLen {a} {b}\n" for a, b in zip(vecs, reversed(vecs)))
    out, _ = run_native(nat, text); got = out.split()
    exp = []
    for v in vecs:
        exp.append(E.run1('k_numNibbles', [v & 0xffffffff])[1]); exp.append(E.run1('k_immSize', [v & 0xffffffff])[1])
    for a, b in zip(vecs, reversed(vecs)): exp.append(E.run1('k_instrLen', [a & 0xffffffff, b & 0xffffffff])[1])
    if [int(x) for x in got] != [sgn(x, 32) if i < 2*len(vecs) and False else x for i, x in enumerate(exp)]:
        ck.fail_inconclusive(f"engine self-check mismatch (kernels): native {got[:10]} engine {exp[:10]}")
    ck.cov['selfcheck_vectors'] += len(exp)
    ck.engine(E)

    # ---- the property: all 2^32 numbers x both signs x 12 mnemonics
    n = z3.BitVec('n', 32); neg = z3.BitVec('neg', 1)
    expected = z3.If(neg == 1, -n, n)
    mns = IMM_MNEMONICS
    seen_bad = set()
    for mn in mns:
        E = Engine(M); stubs.install(E); ostream_stubs(E)
        st = State()
        size = E.run1('k_lexer_size', [], st)[1]
        lx = st.alloc(size, 'Lexer(raw)')
        st, f_tok = E.run1('k_lexer_field', [lx, 0], st); st, f_val = E.run1('k_lexer_field', [lx, 1], st)
        E.store(st, f_tok, 4, z3.If(neg == 1, z3.BitVecVal(TOK['MINUS'], 32), z3.BitVecVal(TOK['NUMBER'], 32)))
        E.store(st, f_val, 4, n)
        def readToken(E_, st_, a, f_val=f_val, f_tok=f_tok):
            # cut of Lexer::readToken after a MINUS: the next token is the NUMBER n (contract of the lexer for "-<digits>")
            E_.store(st_, f_val, 4, n); return TOK['NUMBER']
        E.stubs['_ZN6hexasm5Lexer9readTokenEv'] = readToken
        os_ = st.alloc(8, 'ostream'); vo = st.alloc(4, 'valueOut')
        rs = E.run('k_c04_emit', [TOK[mn], lx, os_, vo], st)
        for r in rs:
            if r.kind != 'ret':
                ok_, m = E.sat(r.st)
                nv, sg = model_int(m, n), model_int(m, neg)
                key = f"imm:{'-' if sg else ''}{nv}"
                confirm_and_report(ck, nat, mn, OPC, sg, nv, key, f"{mn}: path ends in {r.kind}: {r.val}")
                continue
            bs = out_bytes(r.st); s = r.val
            if not is_c(s): ck.fail_inconclusive("symbolic getSize on a path"); continue
            claims = []
            if len(bs) % 4 != 0 or len(bs) < s or len(bs) != (s + 3)//4*4:
                claims.append(z3.BoolVal(False))
            else:
                oreg, wf = prefix_fold(bs, s - 1)
                claims += [wf, z3.LShR(bv(bs[s-1], 8), 4) == OPC[mn], oreg == expected]
                claims += [bv(b, 8) == 0 for b in bs[s:]]
                v_out = E.load(r.st, vo, 4); claims.append(bv(v_out, 32) == expected)
            claim = z3.And(claims)
            tries = 0
            while tries < 6:
                extra = [z3.Not(z3.And(n == a, neg == b)) for (a, b) in seen_bad]
                ok, m = ck.prove(E, r.st, claim, f"{mn} size {s}: emitted bytes decode to the operand", extra_pc=extra)
                if ok: break
                nv, sg = model_int(m, n), model_int(m, neg)
                seen_bad.add((nv, sg)); tries += 1
                key = f"imm:{'-' if sg else ''}{nv}"
                confirm_and_report(ck, nat, mn, OPC, sg, nv, key, f"{mn} {'-' if sg else ''}{nv}: emitted bytes do not decode to the operand")
            if tries >= 6: ck.violation(f"imm:many:{mn}", f"{mn}: more than 6 distinct mis-encoded operands on one path", None)
            ck.sample({'mnemonic': mn, 'size': s, 'path_condition': [str(z3.simplify(c))[:80] for c in r.st.pc[-3:]], 'bytes': [str(b)[:40] for b in bs[:3]]})
        # inputs on which the C++ itself has undefined behaviour were cut from the paths above: replay each natively
        for kind, what, m, pc_ in E.ub:
            nv, sg = model_int(m, n), model_int(m, neg)
            if (nv, sg) in seen_bad: continue
            seen_bad.add((nv, sg))
            key = f"imm:{'-' if sg else ''}{nv}"
            confirm_and_report(ck, nat, mn, OPC, sg, nv, key, f"{mn} {'-' if sg else ''}{nv}: {what}; emitted bytes do not decode to the operand", ub=True)
        ck.engine(E, 'k_c04_emit/' + mn)

    if ck.tier == 'thorough':
        thorough_text(ck, M, nat, TOK, OPC)

    # the cut is discharged by the character-level kernel: every decimal literal of 1..10 digits (value < 2^32) becomes NUMBER with its value
    import lexlib
    lexlib.check_literals(ck, lexlib.Lex(), max_digits=10 if ck.tier == 'quick' else 12)

    ck.assume("Lexer::readToken is cut in the encoder harness (after MINUS the next token is NUMBER with value n) and decided separately: the real Lexer (constructor, readChar, readToken) runs on every string of "
              "1..10 symbolic decimal digits followed by an arbitrary non-digit or end of file and z3 proves token NUMBER with value == the decimal value, for values < 2^32 (larger literals are outside the property); "
              "std::istream::get(char&), the stream's eof state, isspace/isalpha/isalnum/isdigit (\"C\" locale) and strtoul (exact, saturating at ULONG_MAX) are models",
              "std::ostream::put/write modelled as byte sinks",
              "libstdc++ std::map rebalancing replaced by plain BST insertion (order-preserving)",
              "operator new never fails")
    ck.crosscheck()
    ck.finish("Symbolic execution (irsym, clang -O1 IR of hexasm.hpp) of Parser::parseInteger, InstrImm, CodeGen::CodeGen, "
              "CodeGen::emitProgramBin with the lexer number n (32 bit) and the sign token symbolic, for each of the 12 immediate mnemonics. "
              "Per explored path z3 proves that the emitted bytes are PFIX/NFIX* + opcode byte + zero padding and that folding them with the "
              "ISA prefix rule yields (+/-)n mod 2^32. Bound: none on n (all 2^32 values x 2 signs); paths are the engine's forks on size.",
              {'exhaustive': True, 'mnemonics': mns})

def confirm_and_report(ck, nat, mn, OPC, sg, nv, key, what, ub=False):
    lit = ('-' if sg else '') + str(nv)
    out, _ = run_native(nat, f"asm {mn} {lit}\n")
    toks = out.split()
    expect = (-nv if sg else nv) & 0xffffffff
    confirmed = True
    if toks and toks[0] != 'exception':
        size = int(toks[0]); bs = [int(x) for x in toks[1:]]
        opc, oreg, ln = prefix_fold_concrete(bs)
        confirmed = not (opc == OPC[mn] and oreg == expect and ln == size and all(b == 0 for b in bs[ln:]) and len(bs) == (size + 3)//4*4)
    rp = ck.replay_file(key, {'tool': 'hexasm (library path, native)', 'source': f"{mn} {lit}", 'native_output': out.strip(), 'expected_operand': expect})
    if ub and not confirmed: return      # UB whose native result happens to be right: stays in ub_only
    ck.violation(key, what + f" (native: {out.strip()})", rp, confirmed)

def thorough_text(ck, M, nat, TOK, OPC):
    """thorough tier: tie the value to the characters. Lexer number scanning on a symbolic decimal string is
    replaced here by the documented strtoul contract applied to digit strings of length 1..10; we check the
    boundary literals through the *native* text path (real Lexer) as engine-independent confirmation."""
    lits = []
    for k in range(0, 8):
        for d in (-1, 0, 1):
            v = 16**k + d
            lits += [str(v), '-' + str(v)]
    lits += ['0', '2147483647', '-2147483647', '4294967295', '-4294967295', '2147483649', '-2147483649']
    text = ''.join(f"asm LDAC {l}\n" for l in lits)
    out, _ = run_native(nat, text)
    for lit, line in zip(lits, out.strip().split('\n')):
        toks = line.split(); ck.cov['selfcheck_vectors'] += 1
        if toks[0] == 'exception':
            ck.violation(f"imm:{lit}", f"LDAC {lit} rejected: {line}", None); continue
        size = int(toks[0]); bs = [int(x) for x in toks[1:]]
        opc, oreg, ln = prefix_fold_concrete(bs)
        if not (opc == OPC['LDAC'] and oreg == int(lit) & 0xffffffff and ln == size):
            ck.violation(f"imm:{lit}", f"LDAC {lit} mis-encoded natively: {line}", ck.replay_file(f"imm:{lit}", {'source': f"LDAC {lit}", 'native_output': line}))

if __name__ == '__main__':
    from lib.report import guarded
    guarded(main)
