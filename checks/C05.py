#!/usr/bin/env python3
# C05: every label reference assembles to the address of its label (DESIGN.md section 4, C05).
from layrun import *
import chainlib

def expand_gaps(shape, vals):
    out = []; vmap = {}
    for i, (k, mn, a) in enumerate(shape):
        if k == K_GAP:
            g = vals.get(i, 0); out += [(K_IMM, 'LDAC', 305419896)] * (g // 8) + [(K_OPR, 'ADD', 0)] * (g % 8)
        else: out.append((k, mn, a))
    return out

def gap_family(ck, L):
    """structures of R relative references with EVERY gap size symbolic (0..2^20 bytes): the layout fixed point must be
    consistent and reached within the budget for every distance. R = 1 quick, R <= 2 thorough."""
    Rs = (1,) if ck.tier == 'quick' else (1, 2)
    shapes = [gap_shape(st_) for R in Rs for st_ in gap_structures(R)]
    results = run_gap_shapes(shapes)
    for res in results:
        if 'error' in res: ck.fail_inconclusive(f"gap shape: {res['error']}"); continue
        s_ = res['stats']
        ck.cov['paths'] += s_['paths']; ck.cov['paths_cut'] += s_['cut']; ck.cov['queries'] += s_['queries']; ck.cov['solver_s'] += s_['solver_s']
        ck.cov['ir_steps'] += s_['steps']; ck.cov['obligations'] += s_['obligations']; ck.cov['discharged'] += s_['discharged']
        if len(ck.final_queries) < 6: ck.final_queries += res.get('smt', [])[:1]
        seen = set()
        for cat, what, vals in res['findings']:
            sk = shape_key([x for x in res['shape'] if x[0] != K_GAP]) + ' +gaps'
            key = f"{cat}:{sk}"
            if key in seen: continue
            seen.add(key)
            concrete = expand_gaps(res['shape'], vals)
            src = shape_text(concrete)
            try:
                out, _ = run_native(L.native(), src + "----\n", timeout=30); line = out.strip().split('\n')[0] if out.strip() else 'error no output'
                bad = concrete_check(L, concrete, {}, line); confirmed = any(c == cat for c, w in bad) or cat == 'crash' and line.startswith('error')
            except subprocess.TimeoutExpired:
                line = 'native assembler did not terminate within 30 s'; confirmed = (cat == 'hang')
            rp = ck.replay_file(key, {'gaps': vals, 'source_lines': len(src.split('\n')), 'native': line[:300], 'engine_finding': what})
            ck.violation(key, f"{what} [structure {sk}; gap sizes {vals}]", rp, confirmed)
    ck.cov['gap_structures'] = len(shapes)
    ck.sample({'family': 'symbolic gap sizes', 'structures': len(shapes), 'gap_range': '0..2^20 bytes each', 'references': max(Rs)})

def main():
    ck = Check('C05', 'other')
    L, shapes, results = run_family(ck, 'C05')
    gap_family(ck, L)
    chainlib.certificate(ck)
    ck.assume("programs are built with the real directive constructors (the parser is covered separately in C10); immediates and DATA words are 32-bit symbols",
              "shapes: all programs of up to N directives over {label A|B, DATA, imm, relative ref, absolute ref, OPR, FUNC} modulo label renaming, with one representative "
              "of the relative (BR,BRZ,BRN,LDAP,LDAI,LDBI,STAI) and absolute (LDAM,LDBM,STAM,LDAC,LDBC) mnemonic classes rotated through; N = 3 quick, 4 thorough; plus boundary programs",
              "gap family: R relative references and their labels in every arrangement with a Padding directive of symbolic size (0..2^20 bytes) before, between and after them, layout only (emit off): "
              "z3 proves on every path that offsets are cumulative, each reference satisfies offset + size + operand == label address and its operand fits the size chosen; R = 1 quick, R <= 2 thorough. "
              "Interlocking chains of three or more references at symbolic distances are outside (path count grows as 8^R per pass)",
              "termination: (1) on every explored path of the shape set and the gap family the fixed point is reached within the step budget; (2) certificate for all programs: a reference put into an ARBITRARY "
              "encoded length 1..8 (InstrLabel::update on the fresh object) before the real CodeGen constructor runs never ends shorter than it started, for every gap size - lengths only grow, are bounded by 8, "
              "and a pass with stable lengths settles labels and then operands, so the iteration stops (R = 1 relative and absolute quick, additionally R = 2 relative thorough). A failing certificate is reported as INCONCLUSIVE, not as a violation: "
              "a program on which hexasm really hangs needs interlocking references beyond the shape bound",
              "duplicate definitions of a label are outside (which definition is 'its label' is not defined)",
              "std::fstream replaced by a byte sink; rb-tree rebalancing replaced by BST insertion; error constructors keep their type and lose their text",
              "step budget 300000 + 4000 x directives IR instructions per path (about 25 layout passes): paths cut there are reported as possible non-termination, never as success")
    ck.crosscheck()
    ck.finish("Each program shape is built by the real directive constructors and run through the real CodeGen (createLabelMap, resolveLabels, padding) and emitBin in the engine "
              "with every immediate and DATA word symbolic, so each path fixes the encoded sizes and covers all values with those sizes. The emitted file is decoded by an independent "
              "oracle that walks the source directives with the ISA prefix rule (never the assembler's own offsets) and z3 proves per path: opcode nibbles, immediates, DATA words aligned "
              "and equal, zero padding, header == size/4, relative references land on their label, absolute references hold the word address or are rejected when unaligned.",
              {'exhaustive': True})

if __name__ == '__main__':
    from lib.report import guarded
    guarded(main)
