#!/usr/bin/env python3
# C05: every label reference assembles to the address of its label (DESIGN.md section 4, C05).
from layrun import *

def main():
    ck = Check('C05', 'other')
    L, shapes, results = run_family(ck, 'C05')
    ck.assume("programs are built with the real directive constructors (the parser is covered separately in C10); immediates and DATA words are 32-bit symbols",
              "shapes: all programs of up to N directives over {label A|B, DATA, imm, relative ref, absolute ref, OPR, FUNC} modulo label renaming, with one representative "
              "of the relative (BR,BRZ,BRN,LDAP,LDAI,LDBI,STAI) and absolute (LDAM,LDBM,STAM,LDAC,LDBC) mnemonic classes rotated through; N = 3 quick, 4 thorough; plus boundary programs",
              "duplicate definitions of a label are outside (which definition is 'its label' is not defined)",
              "std::fstream replaced by a byte sink; rb-tree rebalancing replaced by BST insertion; error constructors keep their type and lose their text",
              "step budget 300000 + 4000 x directives IR instructions per path (about 25 layout passes): paths cut there are reported as possible non-termination, never as success")
    ck.crosscheck()
    ck.finish("Each program shape is built by the real directive constructors and run through the real CodeGen (createLabelMap, resolveLabels, padding) and emitBin in the engine "
              "with every immediate and DATA word symbolic, so each path fixes the encoded sizes and covers all values with those sizes. The emitted file is decoded by an independent "
              "oracle that walks the source directives with the ISA prefix rule (never the assembler's own offsets) and z3 proves per path: opcode nibbles, immediates, DATA words aligned "
              "and equal, zero padding, header == size/4, relative references land on their label, absolute references hold the word address or are rejected when unaligned.",
              {'exhaustive': True})

if __name__ == '__main__':
    from lib.report import guarded
    guarded(main)
