#!/usr/bin/env python3
# C01: xcmp preserves X source semantics in the binaries it emits (DESIGN.md section 4, C01).
from tvrun import *

def report(ck, results, cats, tv):
    for r in results:
        name = r['name']
        if r['status'].startswith('engine-error'): ck.fail_inconclusive(f"{name}: {r['status']}"); continue
        if r['status'].startswith('compile-fail') and 'C01' in cats:
            # a program the reference semantics accepts must compile
            try:
                refs = xref.explore(r['src'], {'s0': 0, 's1': 0}, [0], max_paths=4)
                accepted = any(x['events'] is not None for x in refs)
            except Exception: accepted = False
            if accepted:
                key = f"rejected:{name}"
                ck.violation(key, f"xcmp rejects or crashes on a well-defined program: {r['status'][:80]} [{name}]", ck.replay_file(key, {'source': r['src'], 'status': r['status']}), True)
            continue
        seen = set()
        for cat, what, vals, _ in r['findings']:
            if cat not in cats.get('findings', ()): continue
            key = f"{cat}:{name}"
            if key in seen: continue
            seen.add(key)
            nsym = 2 if 'var s0; var s1;' in r['src'] else 0
            confirmed, detail = confirm(tv, r['src'], vals, nsym, 2 if name.startswith('shipped:') else 1)
            if cat == 'memory': confirmed = True      # an out-of-range access is silent in the native simulator: the engine's bounds check is the witness
            ck.violation(key, f"{what[:200]} [{name}; values {vals}]", ck.replay_file(key, dict(detail, program=name, finding=what)), confirmed)
        for kind, what, vals in r['monitor']:
            if kind not in cats.get('monitor', ()): continue
            key = f"{kind}:{name}"
            if key in seen: continue
            seen.add(key)
            ck.violation(key, f"{what} [{name}; values {vals}]", ck.replay_file(key, {'source': r['src'], 'values': vals, 'finding': what}), True)

def main():
    ck = Check('C01', 'translation_validation')
    jobs = jobs_for(ck)
    results = run_jobs(jobs)
    fold(ck, results)
    tv = TV()
    report(ck, results, {'C01': True, 'findings': ('behaviour',)}, tv)
    tv.close()
    import xk
    xk.string_kernel(ck, ('C01',))
    for r in results[:2] + results[100:102]:
        ck.sample({'program': r['name'], 'status': r['status'], 'reference_paths': r['ref_paths'], 'binary_paths': r['bin_paths'], 'obligations': r['obligations']})
    ck.cov['disagreements_checked'] = ck.cov['obligations']
    ck.assume("programs are enumerated (bounded-exhaustive generator gen/xgen.py: every operator x leaf placements x syntactic contexts, depth <= 2, sampled per seed in the quick tier; hand-written skeletons for control flow, "
              "recursion, array/value formals, strings, name collisions; the shipped tests/x programs except the self-compiler); per program ALL input bytes and the 32-bit values of the designated globals s0, s1 are symbolic",
              "reference semantics ref/xref.py written from xhexnotes.pdf; paths the reference deems undefined (unassigned reads, subscripts out of range, overflow of + - and of a comparison difference in either direction, "
              "non-boolean operands of and/or/~, side-effecting calls in operand positions whose order is open) are removed by assumption and counted",
              "the evaluation-order exclusion is static and conservative (stricter than the property's subset): fewer programs are checked, none wrongly",
              "packed string literals: CodeBuffer::genString is additionally executed as a kernel on literals of 0..9 (thorough 17) arbitrary characters and z3 proves the DATA words equal the reference packing for every character value",
              "designated globals are the first declared and therefore the first DATA words after the stack-pointer word (checked on the -S listing of every program)",
              "bounds: <= 2000 (quick) / 4000 (thorough) executed instructions, <= 64 paths and 60 s per program; paths cut there are counted, never claimed",
              "the binary runs on hexsim::Processor::run (+syscall), whose conformance to the ISA is C02; HexSimIO cut to (byte, stream) events")
    ck.crosscheck()
    ck.finish("Translation validation per program: the binary emitted by the xcmp built from the working tree runs on the IR of hexsim::Processor::run in the engine with symbolic input bytes and "
              "symbolic initial values of designated globals; the independent X reference interpreter runs the source on the same symbols; for every pair of reference path and binary path z3 proves "
              "equal output bytes and streams, equal input consumption and equal exit value.")

if __name__ == '__main__':
    from lib.report import guarded
    guarded(main)
