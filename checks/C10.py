#!/usr/bin/env python3
# C10: hexasm accepts or cleanly rejects every input (DESIGN.md section 4, C10) - bounded, stated per part.
from layrun import *

LEX_TOKENS = ['NUMBER', 'MINUS', 'DATA', 'PROC', 'FUNC', 'LDAM', 'LDBM', 'STAM', 'LDAC', 'LDBC', 'LDAP', 'LDAI', 'LDBI', 'STAI',
              'BR', 'BRZ', 'BRN', 'BRB', 'SVC', 'ADD', 'SUB', 'OPR', 'IDENTIFIER', 'END_OF_FILE', 'NONE']

def parser_totality(ck):
    """Parser::parseDirective on every token sequence the lexer can produce (the parser consumes at most 3), numbers symbolic"""
    ll = build.ir('asm_kernels.cpp'); M = parse_module(ll); TOK = asm_tokens()
    outcomes = {}
    for first in LEX_TOKENS:
        E = Engine(M); stubs.install(E)
        st = State()
        size = E.run1('k_lexer_size', [], st)[1]
        lx = st.alloc(size, 'Lexer(raw)')
        st, _ = E.run1('k_lexer_prepare', [lx], st)
        st, f_tok = E.run1('k_lexer_field', [lx, 0], st); st, f_val = E.run1('k_lexer_field', [lx, 1], st)
        E.store(st, f_tok, 4, TOK[first]); E.store(st, f_val, 4, E.newsym('num', 32))
        def readToken(E_, st_, a, f_val=f_val):
            k = E_.choose(st_, len(LEX_TOKENS), 'next token')
            st_.events.append(('tok', LEX_TOKENS[k]))
            if LEX_TOKENS[k] == 'NUMBER': E_.store(st_, f_val, 4, E_.newsym('num', 32))
            return TOK[LEX_TOKENS[k]]
        E.stubs['_ZN6hexasm5Lexer9readTokenEv'] = readToken
        for nm in list(M.funcs):
            if nm.startswith('_ZN6hexasm') and 'Error' in nm and 'C2E' in nm:
                def err(E_, st_, a):
                    o = st_.wobj(a[0].obj) if a[0].obj in st_.objs else None
                    E_.store(st_, a[0], 8, NULL); return None
                E.stubs[nm] = err
        out = st.alloc(12, 'out')
        rs = E.run('k_parse_directive', [lx, out], st)
        for r in rs:
            seq = [first] + [e[1] for e in r.st.events if e[0] == 'tok']
            ck.obligation(r.kind in ('ret', 'throw'))
            if r.kind == 'throw':
                if not E.ti_derives(r.st, r.val.tinfo, Ptr(('g', '_ZTISt9exception'), 0)):
                    ck.violation("parser:foreign-exception:" + ' '.join(seq), f"parseDirective on {seq} throws a non-std exception", None)
                outcomes['rejected'] = outcomes.get('rejected', 0) + 1
            elif r.kind == 'ret': outcomes['directive'] = outcomes.get('directive', 0) + 1
            else:
                key = f"parser:{r.kind}:{' '.join(seq)}"
                src = token_text(seq)
                out_, _ = run_native(Lay().native(), src + "\n----\n")
                ck.violation(key, f"parseDirective on token sequence {seq} ends in {r.kind}: {r.val} (native on '{src}': {out_.strip()[:100]})", ck.replay_file(key, {'source': src, 'native': out_.strip()[:300]}), True)
        for u in E.ub: pass
        ck.engine(E, 'hexasm::Parser::parseDirective')
    ck.sample({'parser_outcomes': outcomes})

def token_text(seq):
    m = {'NUMBER': '7', 'MINUS': '-', 'IDENTIFIER': 'id', 'END_OF_FILE': '', 'NONE': '?'}
    return ' '.join(m.get(t, t) for t in seq)

def kernels(ck):
    """numNibbles / instrLen / InstrImm::getSize for every argument: terminate, no undefined behaviour"""
    M = parse_module(build.ir('asm_kernels.cpp'))
    E = Engine(M); stubs.install(E)
    v = z3.BitVec('v', 32)
    for fn in ('k_numNibbles', 'k_immSize'):
        for r in E.run(fn, [v]):
            ck.obligation(r.kind == 'ret')
            if r.kind != 'ret': ck.violation(f"kernel:{fn}:{r.kind}", f"{fn}: {r.val}", None)
    l, b = z3.BitVec('l', 32), z3.BitVec('b', 32)
    st = State(); st.pc = [z3.ULT(l, 1 << 30), z3.ULT(b, 1 << 30)]
    for r in E.run('k_instrLen', [l, b], st):
        ck.obligation(r.kind == 'ret')
        if r.kind != 'ret': ck.violation(f"kernel:instrLen:{r.kind}", f"instrLen: {r.val}", None)
    for kind, what, m, pc_ in E.ub:
        key = f"kernel-ub:{what[:40]}"
        ck.violation(key, f"undefined behaviour in an arithmetic kernel: {what} for {m}", None)
    E.ub = []
    ck.engine(E, 'numNibbles, instrLen, InstrImm::getSize')

def main():
    ck = Check('C10', 'other')
    extra = [
        [(K_LABEL, None, 0), (K_LABEL, None, 0), (K_REL, 'BR', 0)],
        [(K_LABEL, None, 0), (K_DATA, None, None), (K_LABEL, None, 0), (K_ABS, 'LDAM', 0)],
        [(K_OPR, 'LDAM', 0)], [(K_OPR, 'DATA', 0)],
        [(K_LABEL, None, 7), (K_REL, 'BR', 7)],
        [(K_FUNC, None, 4), (K_PROC, None, 4), (K_REL, 'LDAP', 4)],
        [(K_IMM, 'LDAC', None)] * 2,
        [],                                                      # the empty program
        [(K_LABEL, None, 0)], [(K_FUNC, None, 4)],               # labels only
        [(K_LABEL, None, 0), (K_OPR, 'ADD', 0), (K_LABEL, None, 0)], [(K_FUNC, None, 4), (K_DATA, None, None), (K_PROC, None, 4)],   # one name at two addresses
    ]
    L, shapes, results = run_family(ck, 'C10', extra)
    kernels(ck)
    parser_totality(ck)
    import chainlib; chainlib.certificate(ck)
    import lexlib
    LX = lexlib.Lex()
    for nb in ((1, 2, 3) if ck.tier == 'quick' else (1, 2, 3, 4)): lexlib.check_totality(ck, LX, nb)
    ck.assume("the property ranges over byte strings of kilobytes; decided here: (1) totality of layout+emission on the C05 shape set plus undefined/duplicate/keyword-like labels and invalid OPR operands, all immediates symbolic; "
              "(2) totality of Parser::parseDirective on every token sequence (lexer cut to an arbitrary token source, numbers symbolic); (3) arithmetic kernels on their whole argument range (instrLen: offsets < 2^30)",
              "(4) the character-level Lexer (real constructor, readChar, readToken, Table::lookup) on EVERY string of up to 3 bytes (4 thorough), all bytes symbolic: token after token until END_OF_FILE, no UB, crash or budget cut; "
              "std::istream::get(char&)/eof state, the libc classifiers (\"C\" locale, total on -128..255 as glibc's tables are) and strtoul are models. Longer strings and the interaction of lexer state across many tokens are outside",
              "every run must end in 'emitted' or 'threw an exception derived from std::exception' before any output was written; null/out-of-bounds access, unreachable, abort, UB or the step budget are violations",
              "'never loops forever in layout': every explored path reaches the fixed point within the step budget, and the grow-only certificate of C05 (a reference started from an arbitrary encoded length never ends shorter, "
              "for every gap size) is decided again here; a failing certificate is INCONCLUSIVE, a concrete non-terminating program is a violation",
              "stubs and budgets as in C05")
    ck.crosscheck()
    ck.finish("Bounded totality of the assembler's stages decided by symbolic execution: every explored path of CodeGen/emitBin on the shape set, of parseDirective on all token sequences "
              "and of the arithmetic kernels on all arguments ends in an emitted image or a clean exception; undefined behaviour (poison from nsw arithmetic, std::abs(INT_MIN), oversized shifts), "
              "null and out-of-bounds accesses, reads of indeterminate memory and step-budget exhaustion are reported.")

if __name__ == '__main__':
    from lib.report import guarded
    guarded(main)
