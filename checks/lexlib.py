# Character-level kernel of hexasm's Lexer (C04: decimal literals reach the encoder exactly; C10: every byte string yields
# tokens or a clean end). The real Lexer constructor, readChar, readToken, Table::lookup run; the character source
# (std::istream::get(char&) and the stream's eof state) and the libc classifiers / strtoul are modelled.
from common import *
import time

IOS_OFF = 256; STATE_OFF = IOS_OFF + 32        # as in loader.py: basic_ios virtual base and ios_base::_M_streambuf_state

def in_set(c, ranges):
    return z3.Or([z3.And(c >= lo, c <= hi) if lo != hi else c == lo for lo, hi in ranges])

CLASSES = {
    'isspace': [(9, 13), (32, 32)],
    'isdigit': [(48, 57)],
    'isalpha': [(65, 90), (97, 122)],
    'isalnum': [(48, 57), (65, 90), (97, 122)],
}

class Lex:
    def __init__(self):
        self.ll = build.ir('asm_kernels.cpp'); self.M = parse_module(self.ll)
        self.TOK = asm_tokens()

    def engine(self, chars):
        """chars: list of 8-bit values (ints or z3) the stream delivers; after them the stream is at end of file"""
        E = Engine(self.M); stubs.install(E); ostream_stubs(E)
        E.max_steps = 600_000          # constructor (20 keyword inserts) plus a few tokens need < 100 000 steps; a path that needs more does not end
        def classifier(name):
            rs = CLASSES[name]
            def f(E_, st, a):
                c = a[0]
                if is_c(c):
                    c = sgn(c & 0xffffffff, 32); return int(any(lo <= c <= hi for lo, hi in rs))
                return z3.If(in_set(c, rs), z3.BitVecVal(1, 32), z3.BitVecVal(0, 32))      # "C" locale; glibc's tables are total on -128..255
            return f
        for n in CLASSES: E.stubs[n] = classifier(n)
        def get(E_, st, a):         # std::istream::get(char&)
            pos = st.x.get('lexpos', 0)
            if pos < len(chars):
                E_.store(st, a[1], 1, chars[pos]); st.x['lexpos'] = pos + 1
            else:
                E_.store(st, a[0].add(STATE_OFF), 4, 6)         # eofbit | failbit; the character is left unchanged
                # a reader that keeps asking at end of file is looping: cut the path there instead of after the step budget
                k = st.x.get('eofreads', 0) + 1; st.x['eofreads'] = k
                if k > 64: raise Budget('reads at end of file')
            return a[0]
        E.stubs['_ZNSi3getERc'] = get
        def strtoul(E_, st, a):
            if not (is_c(a[2]) and a[2] == 10): raise Unsupported("strtoul base")
            p = a[0]; v = z3.BitVecVal(0, 64); n = 0; sat = z3.BoolVal(False)
            while True:
                b = E_.load(st, p.add(n), 1)
                if is_c(b) and b == 0: break
                if n >= 24: raise Unsupported("strtoul on a literal longer than 24 digits")
                d = z3.ZeroExt(56, bv(b, 8)) - 48
                # saturation at ULONG_MAX as strtoul specifies
                wide = z3.ZeroExt(8, v) * 10 + z3.ZeroExt(8, d)
                sat = z3.Or(sat, z3.UGT(wide, z3.BitVecVal((1 << 64) - 1, 72)))
                v = z3.Extract(63, 0, wide); n += 1
            r = simp(z3.If(sat, z3.BitVecVal((1 << 64) - 1, 64), v))
            return r
        E.stubs['strtoul'] = strtoul
        E.stubs['_ZNSt14basic_ifstreamIcSt11char_traitsIcEE5closeEv'] = stubs.s_nop
        return E

    def start(self, E, st=None):
        """a Lexer from its real constructor with the stream attached (first character read); returns (state, lexer ptr)"""
        st = st or State()
        st, lx = E.run1('k_lexer_new', [], st)
        s = st.alloc(520, 'istream')
        o = st.wobj(s.obj); o.zero.append((0, 520))
        E.store(st, s, 8, Ptr(('g', '_ZTTSt14basic_ifstreamIcSt11char_traitsIcEE$fakevt'), 24))
        rs = E.run('k_lexer_attach', [lx, s], st)
        return rs, lx

def decimal_value(digits):
    v = z3.BitVecVal(0, 64)
    for d in digits: v = v * 10 + (z3.ZeroExt(56, d) - 48)
    return v

def check_literals(ck, L, max_digits=10):
    """for every decimal literal of 1..max_digits digits (each digit a symbol) followed by any non-digit or end of file:
    the token is NUMBER and Lexer::getNumber() is the decimal value (values < 2^32; larger literals are outside)"""
    f_val = None
    for n in range(1, max_digits + 1):
        for tail in ('eof', 'char'):
            digits = [z3.BitVec(f'd{n}_{i}', 8) for i in range(n)]
            chars = list(digits)
            pre = [z3.And(z3.UGE(d, 48), z3.ULE(d, 57)) for d in digits]
            if tail == 'char':
                t = z3.BitVec(f't{n}', 8); chars.append(t); pre.append(z3.Not(z3.And(z3.UGE(t, 48), z3.ULE(t, 57))))
            dv = decimal_value(digits)
            pre.append(z3.ULT(dv, 1 << 32))
            E = L.engine(chars); st = State(); st.pc = list(pre)
            rs, lx = L.start(E, st)
            for r0 in rs:
                if r0.kind != 'ret':
                    ck.violation(f"lexer:attach:{r0.kind}", f"Lexer start on a {n}-digit literal ends in {r0.kind}: {r0.val}", None); continue
                for r in E.run('k_lexer_next', [lx], r0.st):
                    if r.kind != 'ret':
                        ok_, m = E.sat(r.st)
                        ck.violation(f"lexer:number:{r.kind}", f"readToken on a {n}-digit literal ends in {r.kind}: {r.val} for digits {[model_int(m, d) - 48 for d in digits] if m else '?'}", None); continue
                    st2, fp = E.run1('k_lexer_field', [lx, 1], r.st)
                    val = E.use(st2, E.load(st2, fp, 4), 'Lexer::value')
                    claim = z3.And(bv(r.val, 32) == L.TOK['NUMBER'], bv(val, 32) == z3.Extract(31, 0, dv))
                    ok, m = ck.prove(E, st2, claim, f"{n}-digit decimal literal ({'end of file' if tail == 'eof' else 'any non-digit'} after it): token NUMBER with the literal's value")
                    if not ok:
                        lit = ''.join(chr(model_int(m, d)) for d in digits)
                        got = m.eval(bv(val, 32), model_completion=True)
                        key = f"lexer-literal:{lit}"
                        rp = ck.replay_file(key, {'literal': lit, 'lexer_value': str(got), 'token': str(m.eval(bv(r.val, 32), model_completion=True))})
                        ck.violation(key, f"the lexer turns the literal {lit} into token {m.eval(bv(r.val, 32), model_completion=True)} value {got}", rp, confirm_literal(L, lit))
            ck.engine(E, 'hexasm::Lexer (constructor, readChar, readToken) on decimal literals')

def confirm_literal(L, lit):
    """native: assemble `LDAC <lit>` with the real tool chain and decode the bytes"""
    exe = build.native('asm_kernels.cpp', extra=['-DNATIVE_DRIVER'])
    out = subprocess.run([exe], input=f"asm LDAC {lit}\n", capture_output=True, text=True, timeout=60).stdout.split()
    if not out or out[0] == 'exception': return False
    bs = [int(x) for x in out[1:]]
    _o, oreg, _l = prefix_fold_concrete(bs)
    return (oreg & 0xffffffff) != (int(lit) & 0xffffffff)

def confirm_bytes(bs):
    """native: the real hexasm on a file holding exactly these bytes; a signal or a hang confirms"""
    import tempfile, shutil
    d = tempfile.mkdtemp(dir=os.path.join(build.VERIF, 'build'))
    try:
        open(os.path.join(d, 'in.S'), 'wb').write(bytes(b & 0xff for b in bs))
        try: r = subprocess.run([build.tool('hexasm'), 'in.S', '-o', 'out.bin'], cwd=d, capture_output=True, timeout=20)
        except subprocess.TimeoutExpired: return True
        return r.returncode < 0
    finally: shutil.rmtree(d, ignore_errors=True)

def check_totality(ck, L, nbytes=3):
    """every string of nbytes arbitrary bytes: the lexer delivers tokens until END_OF_FILE without UB, crash or budget cut"""
    t0 = time.time()
    chars = [z3.BitVec(f'c{i}', 8) for i in range(nbytes)]
    E = L.engine(chars); E.max_paths = 200000
    rs, lx = L.start(E)
    work = [(r.st, 0) for r in rs if r.kind == 'ret']
    for r in rs:
        if r.kind != 'ret': ck.violation(f"lexer:attach:{r.kind}", f"Lexer start ends in {r.kind}: {r.val}", None)
    ends = 0; toks = 0; reported = set()
    while work:
        st, k = work.pop()
        if k > nbytes + 2:
            ok_, m = E.sat(st)
            ck.violation("lexer:no-eof", f"the lexer does not reach END_OF_FILE after {k} tokens on {nbytes} bytes {[model_int(m, c) for c in chars] if m else ''}", None); continue
        for r in E.run('k_lexer_next', [lx], st):
            ck.obligation(r.kind == 'ret')
            if r.kind != 'ret':
                ok_, m = E.sat(r.st)
                bs = [model_int(m, c) for c in chars] if m else []
                key = f"lexer:{r.kind}"
                if key in reported: continue
                reported.add(key)
                ck.violation(key, f"readToken ends in {r.kind}: {r.val} on bytes {bs}", ck.replay_file(key, {'bytes': bs}), confirm_bytes(bs)); continue
            toks += 1
            t = r.val
            if not is_c(t):
                # a keyword/identifier lookup merged into one term: it is never END_OF_FILE
                ok_, _m = E.sat(r.st, bv(t, 32) == L.TOK['END_OF_FILE'])
                if ok_: raise Inconclusive("token term that may be END_OF_FILE")
                work.append((r.st, k + 1)); continue
            if t == L.TOK['END_OF_FILE']: ends += 1
            else: work.append((r.st, k + 1))
    for kind, what, m, pc_ in E.ub:
        ck.ub_only.append({'kind': kind, 'what': what, 'where': 'hexasm::Lexer', 'model': str([model_int(m, c) for c in chars])})
    E.ub = []
    ck.engine(E, f'hexasm::Lexer on every string of {nbytes} bytes')
    ck.sample({'kernel': 'lexer totality', 'bytes': nbytes, 'token_paths': toks, 'paths_reaching_eof': ends, 'wall_s': round(time.time() - t0, 1)})
