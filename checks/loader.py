# File model (std::ifstream / std::fstream stubs over harness-owned byte strings) and the loader obligations.
from simlib import *

def _files(st):
    f = dict(st.x.get('files', {})); st.x['files'] = f; return f

def file_stubs(E, contents_fn):
    """contents_fn(name: bytes) -> list of bytes (ints or z3 8-bit) or None when the file does not exist"""
    def key(p): return (p.obj, p.off)
    IOS_OFF = 256; STATE_OFF = IOS_OFF + 32          # std::ifstream: virtual base basic_ios at +256, ios_base::_M_streambuf_state at +32
    def set_state(E_, st, p, bits):
        E_.store(st, p.add(STATE_OFF), 4, bits)
    def ctor(E_, st, a):
        name = E_.read_cstr(st, a[1]); data = contents_fn(name)
        _files(st)[key(a[0])] = (name, tuple(data) if data is not None else None, 0, data is None)
        # a constructed stream object: vptr whose vbase offset locates basic_ios, and a clear (or failed) stream state,
        # so that inline members such as operator!, fail(), eof(), good() work on it
        o = st.wobj(a[0].obj)
        if o.size >= a[0].off + 520:
            o.zero.append((a[0].off + 8, a[0].off + 520))
            E_.store(st, a[0], 8, Ptr(('g', '_ZTTSt14basic_ifstreamIcSt11char_traitsIcEE$fakevt'), 24))
            set_state(E_, st, a[0], 4 if data is None else 0)
        st.events.append(('open-read', name)); return None
    def get(st, p):
        f = st.x.get('files', {}).get(key(p))
        if f is None: raise Unsupported("stream operation on unknown stream object")
        return f
    def put(st, p, name, data, pos, fail): _files(st)[key(p)] = (name, data, pos, fail)
    def seekg2(E_, st, a):
        name, data, pos, fail = get(st, a[0])
        if not fail:
            off = sgn(a[1], 64); way = a[2]
            pos = off if way == 0 else (pos + off if way == 1 else len(data) + off)
            put(st, a[0], name, data, pos, fail)
        return a[0]
    def seekg1(E_, st, a):      # seekg(pos_type) : {i64,i64} passed as two scalars
        name, data, pos, fail = get(st, a[0])
        if not fail: put(st, a[0], name, data, a[1], fail)
        return a[0]
    def tellg(E_, st, a):
        name, data, pos, fail = get(st, a[0])
        return [0xffffffffffffffff if fail else pos, 0]
    def read(E_, st, a):
        name, data, pos, fail = get(st, a[0]); n = E_.use(st, a[2], 'istream::read length')
        if not is_c(n): raise Unsupported("istream::read with symbolic length")
        if fail or n == 0: return a[0]
        avail = max(0, min(n, len(data) - pos))
        dst = a[1]
        o = E_.getobj(st, dst.obj)
        reg = o.regions[0] if o.regions else None
        if reg is not None and is_c(dst.off) and (dst.off - reg.base) % 4 == 0 and reg.esz == 4:
            k = 0
            while k + 4 <= avail:
                bs = data[pos+k:pos+k+4]
                w = sum(b << (8*i) for i, b in enumerate(bs)) if all(is_c(b) for b in bs) else z3.Concat(*[bv(b, 8) for b in reversed(bs)])
                E_.store(st, dst.add(k), 4, w); k += 4
            while k < avail: E_.store(st, dst.add(k), 1, data[pos+k]); k += 1
        else:
            for k in range(avail): E_.store(st, dst.add(k), 1, data[pos+k])
        put(st, a[0], name, data, pos + avail, avail < n)
        if avail < n and E_.getobj(st, a[0].obj).size >= a[0].off + 520: set_state(E_, st, a[0], 6)      # eofbit | failbit
        st.events.append(('read', name, n, avail))
        return a[0]
    def getc(E_, st, a):
        name, data, pos, fail = get(st, a[0])
        if fail or pos >= len(data):
            put(st, a[0], name, data, pos, True)
            if E_.getobj(st, a[0].obj).size >= a[0].off + 520: set_state(E_, st, a[0], 6)
            return 0xffffffff
        put(st, a[0], name, data, pos + 1, fail)
        b = data[pos]
        return b if is_c(b) else z3.ZeroExt(24, b)
    def dtor(E_, st, a): return None
    E.stubs.update({
        '_ZNSt14basic_ifstreamIcSt11char_traitsIcEEC1EPKcSt13_Ios_Openmode': ctor,
        '_ZNSt14basic_ifstreamIcSt11char_traitsIcEEC2EPKcSt13_Ios_Openmode': ctor,
        '_ZNSi5seekgElSt12_Ios_Seekdir': seekg2, '_ZNSi5seekgESt4fposI11__mbstate_tE': seekg1,
        '_ZNSi5tellgEv': tellg, '_ZNSi4readEPcl': read, '_ZNSi3getEv': getc,
        '_ZNSt14basic_ifstreamIcSt11char_traitsIcEED1Ev': dtor, '_ZNSt14basic_ifstreamIcSt11char_traitsIcEED2Ev': dtor,
    })

def le_word(bs):
    return sum(b << (8*i) for i, b in enumerate(bs)) if all(is_c(b) for b in bs) else z3.Concat(*[bv(b, 8) for b in reversed(bs)])

def check_loader(ck, sim, nmax=4):
    """hexsim::Processor::load on a symbolic file of n image words: words 0..n-1 are the file's
    little-endian words and no other word of memory is written"""
    for n in range(0, nmax + 1):
        body = [z3.BitVec(f'fb{n}_{i}', 8) for i in range(4*n)]
        data = list(struct.pack('<I', n)) + body
        E = sim.engine(); file_stubs(E, lambda name: data)
        junk = z3.Array('junk', z3.BitVecSort(32), z3.BitVecSort(32))
        st = State(); p = sim.new_proc(st, junk)
        # load() touches only memory, debugInfo, debugInfoMap, out: construct the two containers empty
        for f in ('debugInfo',): 
            for k in range(3): E.store(st, p.add(sim.off['debugInfo'] + 8*k), 8, NULL)
        fn = E.alloc_cstr(st, 'image.bin')
        rs = E.run('s_load', [p, fn], st)
        for r in rs:
            if r.kind != 'ret':
                ck.violation(f"load:n={n}:{r.kind}", f"Processor::load on a well-formed {n}-word image ends in {r.kind}: {r.val}", None); continue
            mem = sim.mem(r.st, p).full(); j = z3.BitVec('j', 32)
            claims = [z3.Select(mem, z3.BitVecVal(i, 32)) == le_word(body[4*i:4*i+4]) for i in range(n)]
            claims.append(z3.Implies(z3.UGE(j, n), z3.Select(mem, j) == z3.Select(junk, j)))
            ok, m = ck.prove(E, r.st, z3.And(claims), f"load: {n}-word image placed at words 0..{n-1}, nothing else written")
            if not ok: ck.violation(f"load:n={n}", f"Processor::load misplaces a {n}-word image", None)
        ck.engine(E, 'hexsim::Processor::load')
