# Termination certificate of the layout iteration (C05 / C10): the encoded length of a label reference never shrinks.
#
# resolveLabels stops when a pass changes nothing. That it always stops follows from three facts: (1) a reference's length
# only ever grows, whatever state the iteration is in; (2) lengths are bounded by 8; (3) once lengths are stable, label
# values are settled by the next pass and operands by the one after. (2) and (3) are seen on every run of the L family
# (sizes 1..8, fixed point reached within the step budget). (1) is decided here: a reference is put into an ARBITRARY
# encoded length 1..8 before the real CodeGen constructor runs (the harness calls InstrLabel::update on the fresh object),
# every gap is a symbol, and z3 proves on each path that the final length is >= the initial one. The arbitrary initial
# length stands for any mid-iteration state, so the obligation is inductive over passes.
#
# A failure of (1) is not by itself a program on which hexasm hangs, so it is reported as INCONCLUSIVE ("termination no
# longer certified"), never as a violation; a concrete hang found by the L family is reported as a violation there.
# (A merged encoding - instrLen replaced by an ite-summary of its own IR so that a pass is one path - was built to search
# for real oscillations among 5 references; z3 did not decide those queries within 10 minutes and it was dropped.)
from laylib import *

CN = ["L0", "L1", "L2", "L3", "L4", "L5", "L6", "L7"]
MAXLEN = 8

class Chain:
    def __init__(self):
        self.ll = build.ir('asm_chain.cpp'); self.M = parse_module(self.ll)
        self.TOK = asm_tokens()

    def engine(self):
        E = Engine(self.M); stubs.install(E); ostream_stubs(E)
        def err_ctor(vt):
            def f(E_, st, a):
                o = st.wobj(a[0].obj); o.zero.append((a[0].off, a[0].off + 48))
                E_.store(st, a[0], 8, Ptr(('g', vt), 16)); return None
            return f
        E.stubs['_ZN6hexasm17UnknownLabelErrorC2EN7hexutil8LocationENSt7__cxx1112basic_stringIcSt11char_traitsIcESaIcEEE'] = err_ctor('_ZTVN6hexasm17UnknownLabelErrorE')
        return E

def chain_structures(R):
    """R references in source order with R+1 slots around them; every slot holds a label (gap, label, gap); reference i names
    the label of any slot: (R+1)^R structures. Unused labels are dropped."""
    out = []
    for targets in itertools.product(range(R + 1), repeat=R):
        out.append(targets)
    return out

def chain_shape(targets, mnemonics=('BR', 'BRZ', 'BRN', 'LDAP', 'LDAI'), absolute=()):
    """absolute: indices of references built as absolute (word address) references"""
    R = len(targets); used = sorted(set(targets)); shape = []
    for slot in range(R + 1):
        shape.append((K_GAP, None, None))
        if slot in used:
            shape.append((K_LABEL, None, slot)); shape.append((K_GAP, None, None))
        if slot < R: shape.append((K_ABS, ABS_MN[slot % len(ABS_MN)], targets[slot]) if slot in absolute else (K_REL, mnemonics[slot % len(mnemonics)], targets[slot]))
    # merge adjacent gaps
    out = []
    for it in shape:
        if it[0] == K_GAP and out and out[-1][0] == K_GAP: continue
        out.append(it)
    return out

def chain_key(shape):
    return ' '.join('~' if k == K_GAP else (CN[a] + ':' if k == K_LABEL else f"{mn}>{CN[a]}") for k, mn, a in shape)

def chain_text(shape, vals):
    out = []
    for i, (k, mn, a) in enumerate(shape):
        if k == K_GAP:
            g = vals.get(i, 0); out += ["LDAC 305419896"] * (g // 8) + ["OPR ADD"] * (g % 8)
        elif k in (K_REL, K_ABS): out.append(f"{mn} {CN[a]}")
        elif k == K_LABEL: out.append(CN[a])
    return '\n'.join(out) + '\n'

def analyse_chain(C, shape, gap_max=GAP_MAX, passes=40, arbitrary_lengths=False, deadline_s=None):
    """layout (CodeGen constructor) of a chain shape with every gap symbolic in [0, gap_max].
    arbitrary_lengths: every reference starts with an arbitrary encoded length 1..8 (arbitrary pre-state): the grow-only
    certificate `final length >= initial length` is an obligation."""
    t0 = time.time()
    E = C.engine(); st = State(); n = len(shape)
    if deadline_s: E.deadline = time.time() + deadline_s
    kinds = st.alloc(4*n, 'kinds'); toks = st.alloc(4*n, 'toks'); args = st.alloc(4*n, 'args'); len0 = st.alloc(4*n, 'len0'); info = st.alloc(16*(n+2), 'info')
    gaps = {}; l0 = {}
    for i, (k, mn, a) in enumerate(shape):
        E.store(st, kinds.add(4*i), 4, k); E.store(st, toks.add(4*i), 4, C.TOK[mn] if mn else 0)
        if k == K_GAP:
            g = z3.BitVec(f'gap{i}', 32); gaps[i] = g; st.pc.append(z3.ULE(g, gap_max)); v = g
        else: v = a
        E.store(st, args.add(4*i), 4, v)
        if k in (K_REL, K_ABS) and arbitrary_lengths:
            l = z3.BitVec(f'len{i}', 32); l0[i] = l; st.pc.append(z3.And(l >= 1, l <= MAXLEN)); E.store(st, len0.add(4*i), 4, l)
        else: E.store(st, len0.add(4*i), 4, 0)
    # per pass: the program's directives are visited once; budget = passes
    E.max_steps = 2500 + passes * (400 + 260 * n)
    rs = E.run('c_run', [n, kinds, toks, args, len0, info], st)
    findings = []; stats = dict(paths=len(rs), ret=0, cut=0, obligations=0, discharged=0); smt = []
    def vals_of(m):
        if m is None: return {}
        d = {i: model_int(m, g) for i, g in gaps.items()}
        d.update({f'len{i}': model_int(m, l) for i, l in l0.items()})
        return d
    for r in rs:
        s = r.st
        if r.kind == 'budget':
            stats['cut'] += 1; ok_, m = E.sat(s)
            findings.append(('hang', f"layout still changing after about {passes} passes: possible non-termination of resolveLabels", vals_of(m))); continue
        if r.kind == 'throw' and E.ti_derives(s, r.val.tinfo, Ptr(('g', '_ZTISt9exception'), 0)):
            stats['throw'] = stats.get('throw', 0) + 1; continue          # a clean rejection (unaligned absolute reference)
        if r.kind != 'ret':
            ok_, m = E.sat(s); findings.append(('crash', f"{r.kind}: {r.val}", vals_of(m))); continue
        stats['ret'] += 1
        inf = [[E.use(s, E.load(s, info.add(16*i + 4*j), 4), 'layout result') for j in range(4)] for i in range(n)]
        pos = z3.BitVecVal(0, 32); claims = []; labpos = {}
        for i, (k, mn, a) in enumerate(shape):
            off, sz, val, asm_ = inf[i]
            claims.append(('layout', f"directive #{i} starts where the previous one ends", bv(off, 32) == pos))
            if k == K_LABEL: labpos[a] = pos
            pos = pos + bv(sz, 32)
        for i, (k, mn, a) in enumerate(shape):
            if k == K_ABS and i in l0:
                claims.append(('grow-only', f"absolute reference #{i}: final length >= the length the iteration started from", z3.UGE(bv(inf[i][1], 32), l0[i])))
            if k != K_REL: continue
            off, sz, val, asm_ = inf[i]
            V = bv(val, 32); S = bv(sz, 32)
            claims.append(('ref', f"reference #{i} ({mn} {CN[a]}): offset + size + operand == address of its label", bv(off, 32) + S + V == labpos[a]))
            fits = z3.And(z3.UGE(S, 1), z3.ULE(S, 8),
                          z3.If(V >= 0, z3.Or(S == 8, z3.ULT(V, z3.BitVecVal(1, 32) << (4*S))),
                                z3.And(z3.UGE(S, 2), z3.Or(S == 8, V >= -(z3.BitVecVal(1, 32) << (4*S))))))
            claims.append(('ref', f"operand of reference #{i} fits the encoding length the layout gave it", fits))
            if i in l0: claims.append(('grow-only', f"reference #{i}: final length >= the length the iteration started from", z3.UGE(S, l0[i])))
        if arbitrary_lengths: claims = [x for x in claims if x[0] == 'grow-only']      # consistency of the fixed point is the gap family's obligation
        for cat, what, c in claims:
            stats['obligations'] += 1
            c = z3.simplify(c)
            if z3.is_true(c): stats['discharged'] += 1; continue
            ok_, m = E.sat(s, z3.Not(c))
            if ok_: findings.append((cat, what, vals_of(m)))
            else:
                stats['discharged'] += 1
                if len(smt) < 1:
                    from lib.report import to_smt2
                    smt.append(('unsat', to_smt2(list(s.pc) + [z3.Not(c)]), what))
    for u in E.ub: findings.append(('ub', f"{u[0]}: {u[1]}", vals_of(u[2])))
    stats.update(queries=E.nq, solver_s=E.tq, steps=E.steps, wall=time.time() - t0, functions=sorted(E.called))
    return dict(shape=shape, stats=stats, findings=findings, smt=smt)

_C = None
def _chain_worker(job):
    global _C
    shape, kw = job
    if _C is None: _C = Chain()
    try: return analyse_chain(_C, shape, **kw)
    except Exception as e:
        import traceback
        return dict(shape=shape, error=f"{type(e).__name__}: {e}", tb=traceback.format_exc()[-1500:], stats={}, findings=[])

def run_chains(jobs, procs=16, per_job_s=600):
    C = Chain()
    out = [None] * len(jobs)
    with multiprocessing.Pool(procs) as pool:
        hs = [pool.apply_async(_chain_worker, (j,)) for j in jobs]
        for i, h in enumerate(hs):
            try: out[i] = h.get(timeout=per_job_s + 120)
            except multiprocessing.TimeoutError:
                out[i] = dict(shape=jobs[i][0], error='timeout', stats={}, findings=[])
    return C, out


def certificate(ck):
    """grow-only certificate of the layout iteration: R = 1 (relative forward/backward, absolute) quick, additionally R = 2 (relative) thorough"""
    jobs = []
    for t in chain_structures(1):
        jobs.append((chain_shape(t), dict(arbitrary_lengths=True))); jobs.append((chain_shape(t, absolute=(0,)), dict(arbitrary_lengths=True)))
    if ck.tier == 'thorough':
        for t in chain_structures(2):
            jobs.append((chain_shape(t), dict(arbitrary_lengths=True)))      # absolute references: R = 1 only (mixed R = 2 structures gave solver time-outs)
    C, out = run_chains(jobs, per_job_s=3000)
    bad = 0
    for (sh, kw), r in zip(jobs, out):
        if 'error' in r: ck.fail_inconclusive(f"termination certificate, structure {chain_key(sh)}: {r['error']}"); continue
        s_ = r['stats']
        ck.cov['paths'] += s_['paths']; ck.cov['paths_cut'] += s_['cut']; ck.cov['queries'] += s_['queries']; ck.cov['solver_s'] += s_['solver_s']
        ck.cov['ir_steps'] += s_['steps']; ck.cov['obligations'] += s_['obligations']; ck.cov['discharged'] += s_['discharged']
        ck.cov['functions'] |= set(s_['functions'])
        if len(ck.final_queries) < 8: ck.final_queries += r.get('smt', [])[:1]
        for cat, what, vals in r['findings']:
            if cat == 'grow-only':
                bad += 1
                if bad <= 3:
                    ck.fail_inconclusive(f"termination of the layout iteration is no longer certified: {what} fails in structure [{chain_key(sh)}] for {vals} "
                                         "(the encoded length of a reference shrinks; resolveLabels may oscillate on programs with interlocking references - no such program was constructed)")
            elif cat == 'hang':
                ck.violation(f"hang:{chain_key(sh)}", f"{what} [structure {chain_key(sh)}; values {vals}]", ck.replay_file(f"hang:{chain_key(sh)}", {'structure': chain_key(sh), 'values': {str(k): v for k, v in vals.items()}}), False)
            elif cat in ('crash', 'ub'):
                ck.ub_only.append({'kind': cat, 'what': what, 'shape': chain_key(sh), 'model': str(vals)})
    ck.cov['harnesses'].append('c_run: directive constructors, InstrLabel::update(arbitrary length), CodeGen::CodeGen')
    ck.cov['certificate_structures'] = len(jobs)
    ck.sample({'family': 'termination certificate (lengths only grow)', 'structures': len(jobs), 'initial_length': 'arbitrary 1..8 per reference', 'gap_range': '0..2^20 bytes each'})
