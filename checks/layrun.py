# Shared driver of the L-family checks: runs the shape set of the tier and files findings by category.
from laylib import *

CATS = {'C14': ('partial-output',), 'C05': ('ref', 'layout', 'hang'), 'C17': ('listing',), 'C15': ('debug',), 'C10': ('crash', 'hang', 'partial-output', 'ub'), 'C11': ('uninit',)}

def shape_set(ck):
    N = 3 if ck.tier == 'quick' else 4
    shapes = enumerate_shapes(N, ck.seed) + boundary_shapes(ck.tier == 'quick')
    return shapes

def replay(L, shape, vals):
    try:
        out, _ = run_native(L.native(), shape_text(shape, vals) + "----\n", timeout=20)
    except subprocess.TimeoutExpired:
        return 'native assembler did not terminate within 20 s', [('hang', 'native run timed out')]
    line = out.strip().split('\n')[0] if out.strip() else 'error no output'
    return line, concrete_check(L, shape, vals, line)

def run_family(ck, pid, extra_shapes=(), only=None):
    """only: run just these shapes instead of the tier's shape set"""
    L = Lay()
    shapes = list(only) if only is not None else shape_set(ck) + list(extra_shapes)
    t0 = time.time()
    results = run_shapes(shapes)
    cats = CATS[pid]
    nfind = 0
    for res in results:
        if 'error' in res:
            ck.fail_inconclusive(f"shape {shape_key(res['shape'])}: {res['error']}"); continue
        s = res['stats']
        ck.cov['paths'] += s['paths']; ck.cov['paths_cut'] += s['cut']; ck.cov['queries'] += s['queries']; ck.cov['solver_s'] += s['solver_s']
        ck.cov['ir_steps'] += s['steps']; ck.cov['obligations'] += s['obligations']; ck.cov['discharged'] += s['discharged']
        ck.cov['functions'] |= set(s['functions'])
        if len(ck.final_queries) < (40 if ck.tier == 'thorough' else 4): ck.final_queries += res.get('smt', [])[:1]
        seen = set()
        for cat, what, vals in res['findings']:
            if cat not in cats: continue
            sk = shape_key(res['shape'])
            key = f"{cat}:{sk}"
            if cat == 'ub':
                ck.ub_only.append({'kind': cat, 'what': what, 'shape': sk, 'model': str(vals)}); continue
            if key in seen: continue
            seen.add(key); nfind += 1
            # replay against the real assembler (text -> Lexer -> Parser -> CodeGen -> emitBin)
            line, bad = replay(L, res['shape'], vals)
            if cat in ('hang', 'crash', 'uninit', 'partial-output'):
                confirmed = True if cat in ('uninit', 'partial-output') else (any(c == 'hang' for c, w in bad) if cat == 'hang' else bool(bad) or line.startswith('error'))
                if cat == 'hang' and not confirmed:
                    # the engine's budget is far below what the native assembler can do in 20 s: a native run that finishes refutes the hang
                    confirmed = False
            else:
                confirmed = any(c == cat for c, w in bad)
            rp = ck.replay_file(key, {'source': shape_text(res['shape'], vals), 'native': line[:400], 'native_oracle_failures': bad[:6], 'engine_finding': what})
            ck.violation(key, f"{what} [program: {sk}; values {vals}]", rp, confirmed)
    ck.cov['harnesses'].append('l_run: directive constructors + CodeGen::CodeGen + emitBin')
    ck.cov['shapes'] = len(shapes)
    for res in results[:3] + results[-3:]:
        if 'error' not in res: ck.sample({'program': shape_key(res['shape']), 'paths': res['stats']['paths'], 'obligations': res['stats']['obligations']})
    return L, shapes, results
