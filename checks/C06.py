#!/usr/bin/env python3
# C06: a binary behaves identically on the RTL testbench and on the simulator (DESIGN.md section 4, C06).
from rtllib import *
from simlib import *
import loader, C13, C14

def new_top(tb, E, mem_arr, rand_zero=False):
    """Verilated model built by the real constructor chain; returns (state, ctx, top, regs)"""
    st = State()
    ctxsize = E.run1('tb_ctxsize', [], st)[1]
    ctx = st.alloc(ctxsize, 'VerilatedContext'); st.objs[ctx.obj].zero.append((0, ctxsize))
    rs = E.run('tb_new', [ctx], st)
    if len(rs) != 1 or rs[0].kind != 'ret': raise Inconclusive(f"Vhex_pkg construction: {rs}")
    st, top = rs[0].st, rs[0].val
    regs = {}
    for k, n in enumerate(('pc_q', 'areg_q', 'breg_q', 'oreg_q', 'memory_q', 'i_clk', 'i_rst', 'o_syscall_valid', 'o_syscall')):
        st, q = E.run1('tb_reg', [top, k], st); regs[n] = q
    return st, ctx, top, regs

def shim_engine(tb, data, mem0, inb, zero_poweron=False):
    E = C13.tb_engine(tb, data, mem0, None)
    del E.stubs['_Z13handleSyscallN3hex7SyscallERKSt10unique_ptrI8Vhex_pkgSt14default_deleteIS2_EERib']
    io_cut_stubs(E, inb)
    if zero_poweron: E.stubs['_Z15VL_RAND_RESET_Ii'] = lambda E_, st, a: 0
    return E

def ob2_loaders(ck, tb, sim_inl):
    """hextb load() and Processor::load on the same symbolic file: image words equal"""
    for n, dbg in ((0, 0), (1, 0), (3, 0), (3, 1)) if ck.tier == 'quick' else ((0, 0), (1, 0), (2, 0), (3, 0), (8, 0), (16, 0), (3, 1), (8, 1)):
        body = [z3.BitVec(f'fb{i}', 8) for i in range(4*n)]
        debug = (list(struct.pack('<I', 1)) + [ord('f'), 0] + list(struct.pack('<I', 1)) + list(struct.pack('<II', 0, 0))) if dbg else []
        data = list(struct.pack('<I', n)) + body + debug
        mem0 = z3.Array('junk', z3.BitVecSort(32), z3.BitVecSort(32))
        # RTL side
        ER = C13.tb_engine(tb, data, mem0, stubs.s_nop)
        st, ctx, top, regs = new_top(tb, ER, mem0)
        rs = ER.run('tb_load', [ER.alloc_cstr(st, 'image.bin'), top], st)
        # ISA side
        EI = sim_inl.engine(); loader.file_stubs(EI, lambda name: data)
        si = State(); p = sim_inl.new_proc(si, mem0)
        for k in range(3): EI.store(si, p.add(sim_inl.off['debugInfo'] + 8*k), 8, NULL)
        mp = p.add(sim_inl.off['debugInfoMap'])
        EI.store(si, mp.add(8), 4, 0); EI.store(si, mp.add(16), 8, NULL); EI.store(si, mp.add(24), 8, mp.add(8)); EI.store(si, mp.add(32), 8, mp.add(8)); EI.store(si, mp.add(40), 8, 0)
        ri = EI.run('s_load', [p, EI.alloc_cstr(si, 'image.bin')], si)
        for a in rs:
            for b in ri:
                if a.kind != 'ret' or b.kind != 'ret':
                    ck.violation(f"loader:{n}:{dbg}:{a.kind}/{b.kind}", f"loading a {n}-word image (debug section {bool(dbg)}): hextb {a.kind} {a.val if a.kind != 'ret' else ''}, hexsim {b.kind}", None); continue
                mr = a.st.objs[regs['memory_q'].obj].regions[0].full(); mi = sim_inl.mem(b.st, p).full()
                j = z3.BitVec('j', 32)
                ok, m = ck.prove(ER, a.st, z3.Implies(z3.ULT(j, n), z3.Select(mr, j) == z3.Select(mi, j)), f"loaders agree on the {n} image words (debug section: {bool(dbg)})")
                if not ok: ck.violation(f"loader:{n}:{dbg}", f"hextb and hexsim load word {model_int(m, j)} of a {n}-word image differently", None)
        ck.engine(ER, 'hextb load()'); ck.engine(EI, 'hexsim Processor::load')
    ck.sample({'obligation': 'loader equivalence', 'file': 'header n, 4n symbolic bytes, optional debug section'})

def ob3_shim(ck, tbn, sim):
    """handleSyscall on memory_q versus Processor::syscall on the related memory"""
    mem = z3.Array('mem', z3.BitVecSort(32), z3.BitVecSort(32)); inb = z3.BitVec('inbyte', 8)
    sc = z3.BitVec('syscall', 32); sp = z3.Select(mem, z3.BitVecVal(1, 32))
    assume = [z3.ULE(sc, 2), z3.ULT(sp, MEMWORDS - 3)]
    ER = shim_engine(tbn, [0, 0, 0, 0], mem, lambda k: inb)
    st, ctx, top, regs = new_top(tbn, ER, mem)
    st.pc = list(st.pc) + assume
    ec = st.alloc(4, 'exitCode'); ER.store(st, ec, 4, z3.BitVec('exit0', 32))
    rr = ER.run('tb_syscall', [sc, top, ec], st)
    EI = sim.engine(); io_cut_stubs(EI, lambda k: inb)
    si = State(); si.pc = list(assume); p = sim.new_proc(si, mem)
    for n, v in (('areg', sc), ('truncateInputs', 1), ('running', 1), ('exitCode', z3.BitVec('exit0', 32))): sim.setf(EI, si, p, n, v)
    ri = EI.run('s_syscall', [p], si)
    for a in rr:
        for b in ri:
            s = State(); s.pc = list(a.st.pc) + [c for c in b.st.pc if not any(c is d for d in a.st.pc)]
            if not ER.sat(s)[0]: continue
            if a.kind != 'ret' or b.kind != 'ret':
                ck.violation(f"shim:{a.kind}/{b.kind}", f"system call: hextb shim {a.kind}, hexsim {b.kind}", None); continue
            diffs = []
            ea = [e for e in a.st.events if e[0] in ('in', 'out')]; eb = [e for e in b.st.events if e[0] in ('in', 'out')]
            if [e[0] for e in ea] != [e[0] for e in eb]: diffs.append(z3.BoolVal(True))
            else:
                for x, y in zip(ea, eb):
                    for u, v in zip(x[1:], y[1:]):
                        w = 8 if (x[0] == 'out' and u is x[1]) else 32
                        diffs.append(bv(u, w) != bv(v, w))
            j = z3.BitVec('j', 32)
            mr = a.st.objs[regs['memory_q'].obj].regions[0].full(); mi = sim.mem(b.st, p).full()
            diffs.append(z3.And(z3.ULT(j, MEMWORDS), z3.Select(mr, j) != z3.Select(mi, j)))
            diffs.append(z3.And(z3.UGE(j, MEMWORDS), z3.ULT(j, RTL_MEMWORDS), z3.Select(mr, j) != z3.Select(mem, j)))
            xr = ER.load(a.st, ec, 4); xi = sim.getf(EI, b.st, p, 'exitCode'); run_i = sim.getf(EI, b.st, p, 'running')
            diffs.append(z3.And(sc == 0, bv(xr, 32) != bv(xi, 32)))
            diffs.append((sc == 0) != (bv(run_i, 8) == 0))
            ok, m = ck.prove(ER, s, z3.Not(z3.Or(diffs)), "hextb's system-call shim and hexsim's syscall(): same event, same word written, same exit value")
            if not ok: ck.violation("shim:differs", f"system call {model_int(m, sc)} handled differently by hextb and hexsim (sp={model_int(m, sp)}, input={model_int(m, inb)})", None)
    ck.engine(ER, 'hextb handleSyscall'); ck.engine(EI, 'hexsim Processor::syscall')
    ck.sample({'obligation': 'syscall shim equivalence', 'syscall': 'symbolic 0..2', 'memory': 'symbolic'})

def ob3_once(ck, tbn):
    """around an SVC the shim runs exactly once: follow hextb's run() for the two clock edges from 'the instruction before
    the SVC is about to retire' (time set beyond the reset window)"""
    mem = z3.Array('mem', z3.BitVecSort(32), z3.BitVecSort(32)); inb = z3.BitVec('inbyte', 8)
    a, b = z3.BitVec('areg', 32), z3.BitVec('breg', 32)
    pc32 = z3.BitVecVal(100, 32)          # the four instructions occupy word 25 (their position does not matter: C03 decides fetch for every pc)
    i0 = fetch_byte(mem, pc32); i1 = fetch_byte(mem, pc32 + 1); i2 = fetch_byte(mem, pc32 + 2)
    sp = z3.Select(mem, z3.BitVecVal(1, 32))
    i3 = fetch_byte(mem, pc32 + 3)
    is_svc = lambda i: i == 0xD3
    other = lambda i: z3.LShR(i, 4) == 0x4                        # LDBC k: retires without touching areg or memory
    assume = [z3.ULT(pc32, 4*MEMWORDS - 8), i0 == 0x41,           # LDBC 1 retires first
              z3.Or(is_svc(i1), other(i1)), z3.Or(is_svc(i2), other(i2)), other(i3),   # then two instructions, each an SVC or not
              z3.Or(a == 1, a == 2), z3.ULT(sp, MEMWORDS - 3),
              # the READ call's result slot must not be one of the words the instructions are fetched from (no self-modification here)
              sp + 1 != z3.LShR(pc32, 2), sp + 1 != z3.LShR(pc32 + 3, 2)]
    E = shim_engine(tbn, [0, 0, 0, 0], mem, lambda k: inb)
    st, ctx, top, regs = new_top(tbn, E, mem)
    st.pc = list(st.pc) + assume
    for n, v in (('pc_q', pc32), ('areg_q', a), ('breg_q', b), ('oreg_q', 0)): E.store(st, regs[n], 4, v)
    st, _ = E.run1('tb_settime', [ctx, 20], st)
    calls = []
    orig_out = E.stubs['_ZN3hex8HexSimIO6outputEci']; orig_in = E.stubs['_ZN3hex8HexSimIO5inputEi']
    rs = E.run('tb_run', [ctx, top, 2], st)          # three rising edges: the LDBC and the two following instructions retire
    for r in rs:
        if r.kind != 'ret':
            ck.violation(f"once:{r.kind}", f"run() around an SVC ends in {r.kind}: {r.val}", None); continue
        n_ev = len([e for e in r.st.events if e[0] in ('in', 'out')])
        want = z3.If(is_svc(i1), 1, 0) + z3.If(is_svc(i2), 1, 0)
        ok, m = ck.prove(E, r.st, want == n_ev, "every SVC that retires is serviced exactly once (also two adjacent SVCs)")
        if not ok:
            ck.violation("once:count", f"instructions {model_int(m, i1):#04x} {model_int(m, i2):#04x} retire but hextb's run() services {n_ev} system calls (areg={model_int(m, a)})", None)
    ck.engine(E, 'hextb run() around an SVC')
    ck.sample({'obligation': 'shim runs exactly once per SVC', 'paths': len(rs)})

def ob4_main(ck):
    """main() of hextb returns run()'s value and prints nothing but the load banner before the program runs"""
    tb = TbModel()
    M = tb.M; mainfn = [n for n in M.funcs if 'hextb_main' in n][0]
    rv = z3.BitVec('run_value', 32)
    for argv in (['hextb', 'a.out'], ['hextb', '-t', 'a.out'], ['hextb', 'a.out', '+verilator+seed+5'], ['hextb', 'a.out', 'b.out']):
        E = Engine(M); stubs.install(E)
        H = C14.MainHarness.__new__(C14.MainHarness); H.M = M; H.main = mainfn
        E = C14.MainHarness.engine(H)
        nop = stubs.s_nop
        for n in ('_ZN9Verilated5mkdirEPKc', '_ZN16VerilatedContextC1Ev', '_ZN16VerilatedContextD1Ev', '_ZN9Verilated5debugEi', '_ZN16VerilatedContext9randResetEi',
                  '_ZN16VerilatedContext11commandArgsEiPPKc', '_ZN16VerilatedContext14calcUnusedSigsEb', '_ZN8Vhex_pkgC1EP16VerilatedContextPKc', '_ZN8Vhex_pkgC2EP16VerilatedContextPKc',
                  '_ZN8Vhex_pkgD1Ev', '_ZN8Vhex_pkgD2Ev', '_ZN16VerilatedContext11traceEverOnEb'):
            E.stubs[n] = nop
        def ctx_ctor(E_, st, a):
            o = st.wobj(a[0].obj); o.zero.append((0, o.size)); return None
        E.stubs['_ZN16VerilatedContextC1Ev'] = ctx_ctor
        def model_ctor(E_, st, a):
            E_.store(st, a[0], 8, Ptr(('g', '_ZTV8Vhex_pkg'), 16)); return None
        for n in ('_ZN8Vhex_pkgC1EP16VerilatedContextPKc', '_ZN8Vhex_pkgC2EP16VerilatedContextPKc'): E.stubs[n] = model_ctor
        E.stubs['_ZN8Vhex_pkgD0Ev'] = nop
        E.stubs['_Z4loadPKcRKSt10unique_ptrI8Vhex_pkgSt14default_deleteIS2_EE'] = C14.stage('load', lambda E_, st, a: E_.read_cstr(st, a[0]) if a[0].obj != 0 else None, kinds=[0, 2])
        E.stubs['_Z3runRKSt10unique_ptrI16VerilatedContextSt14default_deleteIS0_EERKS_I8Vhex_pkgS1_IS6_EEbm'] = C14.stage('run', ret=rv, kinds=[0, 2])
        E.stubs['strtoull'] = C14.strtoull_stub
        E.stubs['__errno_location'] = lambda E_, st, a: E_.alloc_bytes(st, [0, 0, 0, 0], 'errno')
        for r in C14.run_main(H, E, argv):
            kind, status = C14.status_of(r); oc = C14.outcome_str(r.st); threw = any(k != 'ok' for _, k in oc)
            files = [x for x in argv[1:] if not x.startswith('-') and not x.startswith('+')]
            ok = True; why = ''
            if kind not in ('ret', 'exit'): ok, why = False, f"main ends in {kind}: {r.val}"
            elif threw or len(files) != 1:
                if is_c(status) and status == 0: ok, why = False, "exit status 0 although an error occurred"
            else:
                okp, m = ck.prove(E, r.st, bv(status, 32) == rv, "hextb's main returns run()'s value")
                if not okp: ok, why = False, "exit status is not run()'s value"
                if [e[3] for e in r.st.events if e[0] == 'stage' and e[1] == 'load'] != [files[0].encode()]: ok, why = False, "load() not given the file argument"
                prints = [e for e in r.st.events if e[0] == 'print']
                if prints: ok, why = False, "main prints to stdout itself"
            ck.obligation(ok)
            if not ok: ck.violation(f"hextb-main:{why[:40]}", f"hextb {' '.join(argv[1:])}: stages {oc}: {why}", None)
        ck.engine(E, 'main of hextb.cpp: ' + ' '.join(argv[1:]))

def end_to_end(ck, tbn, sim, name, src, nin):
    """whole run on both: hextb's run() (Verilated RTL + shim) and hexsim's run() on the same image with symbolic input"""
    import tvlib
    tv = tvlib.TV()
    try:
        c = tvlib.compile_x(src, tv.workdir)
    finally:
        pass
    if isinstance(c, str): tv.close(); raise Inconclusive(f"{name}: {c}")
    data = list(c.raw)
    inputs = [z3.BitVec(f'in{i}', 8) for i in range(nin)]
    mem0 = z3.K(z3.BitVecSort(32), z3.BitVecVal(0, 32))
    ER = shim_engine(tbn, data, mem0, lambda k: inputs[k] if k < len(inputs) else 255, zero_poweron=True)
    ER.max_steps = 40_000_000; ER.concretize_stores = True
    st, ctx, top, regs = new_top(tbn, ER, mem0)
    rs = ER.run('tb_load', [ER.alloc_cstr(st, 'image.bin'), top], st)
    st = rs[0].st
    rr = ER.run('tb_run', [ctx, top, 0], st)
    E2, ri = tv.run_binary(c, {}, inputs, [], max_instr=1500, monitor=False)
    tv.close()
    for a in rr:
        for b in ri:
            s = State(); s.pc = list(a.st.pc) + [x for x in b.st.pc if not any(x is d for d in a.st.pc)]
            if not ER.sat(s)[0]: continue
            if a.kind == 'budget' or b.kind == 'budget': ck.cov['paths_cut'] += 1; continue
            if a.kind != 'ret' or b.kind != 'ret':
                ck.violation(f"e2e:{name}:{a.kind}/{b.kind}", f"{name}: hextb {a.kind} {a.val if a.kind != 'ret' else ''}, hexsim {b.kind}", None); continue
            ea = [e for e in a.st.events if e[0] in ('in', 'out')] + [('exit', a.val)]; eb = [e for e in b.st.events if e[0] in ('in', 'out')] + [('exit', b.val)]
            d = tvlib.event_diffs(ea, eb)
            ok, m = ck.prove(ER, s, z3.Not(z3.Or(d)) if d else (d is not None), f"{name}: hextb and hexsim produce the same output, input consumption and exit status")
            if not ok: ck.violation(f"e2e:{name}", f"{name}: hextb {tvlib.fmt_events(ea, m)} vs hexsim {tvlib.fmt_events(eb, m)}", None)
    ck.engine(ER, f'hextb run() end to end on {name}'); ck.engine(E2, f'hexsim run() end to end on {name}')
    ck.sample({'obligation': 'end to end', 'program': name, 'rtl_paths': len(rr), 'isa_paths': len(ri)})

E2E = {
 'exit7': ("val exit = 0; proc main() is exit(7)", 0),
 'echo': ("val exit = 0; val put = 1; val get = 2; proc main() is var c; { c := get(0); put(c, 0); if c < 'a' then exit(1) else exit(c) }", 1),
 'returns': ("val put = 1; proc main() is put('z', 0)", 0),
}

def main():
    ck = Check('C06', 'translation_validation')
    tb = TbModel(); tbn = TbModel(noinline=True)
    for t in (tb, tbn):
        Etmp = Engine(t.M); stubs.install(Etmp); st = State(); dummy = st.alloc(1 << 22, 'memory-module')
        t.memoff = Etmp.run1('tb_memoff', [dummy], st)[1]
    sim = Sim(noinline=True); sim_inl = Sim(noinline=False)
    ob2_loaders(ck, tb, sim_inl)
    ob3_shim(ck, tbn, sim)
    ob3_once(ck, tbn)
    ob4_main(ck)
    progs = list(E2E.items()) if ck.tier == 'thorough' else list(E2E.items())[:2]
    for name, (src, nin) in progs:
        end_to_end(ck, tbn, sim, name, src, nin)
    ck.cov['programs'] = len(progs); ck.cov['disagreements_checked'] = ck.cov['obligations']
    ck.assume("by induction: C13 (start states related after reset) and C03 (each clock preserves the relation, SVC leaves state to the testbench) plus the obligations decided here",
              "loader equivalence on symbolic files of n <= 3 (quick) / 16 (thorough) words with and without a debug section: image words equal; words beyond the image may differ where hextb copies trailing file bytes (allowed: programs never read memory they have not written)",
              "system-call shim equivalence for syscall 0..2 with symbolic memory and stack pointer in range; the shim runs exactly once per SVC (run() followed over the two edges around an SVC)",
              "hextb's main returns run()'s value and prints nothing itself (stage cut as in C14)",
              "end to end: whole hextb run() (Verilated RTL, reset window, shim) versus hexsim run() on the same xcmp image with symbolic input bytes, power-on registers zero (independence of the power-on state is C13); <= 1500 instructions",
              "HexSimIO cut to (byte, stream) events on both sides (its routing is decided in C02)")
    ck.crosscheck()
    ck.finish("Four solver obligations that extend C03/C13 to whole runs (loaders agree on the image, the system-call shim equals hexsim's syscall() and runs once per SVC, main returns run()'s value) "
              "plus end-to-end runs of hextb's own run() on the Verilated RTL against hexsim's run() on the same image with symbolic input.")

if __name__ == '__main__':
    from lib.report import guarded
    guarded(main)
