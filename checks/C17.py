#!/usr/bin/env python3
# C17: listings agree with the binary they describe (DESIGN.md section 4, C17).
from layrun import *

def main():
    ck = Check('C17', 'other')
    L, shapes, results = run_family(ck, 'C17')
    ck.assume("assertions are on what emitProgramText prints from (getByteOffset, getSize, getValue of each directive, in program order); the boost::format rendering of these numbers is outside (pinned by the repository's exit_tree test)",
              "PADDING is neither an instruction nor DATA and is exempt; labels (size 0) are exempt",
              "shape set, symbolic immediates, stubs and budgets as in C05",
              "xcmp -S listings are covered for the translation-validation programs of C01 by a concrete comparison, reported there")
    ck.crosscheck()
    ck.finish("Same symbolic runs as C05. For every instruction and DATA directive z3 proves per path that the listed offset equals the offset at which the independent "
              "decoder found its encoding, the listed size equals the bytes it occupies and, for label operands, the listed value equals the operand decoded from the bytes.",
              {'exhaustive': True})

if __name__ == '__main__':
    from lib.report import guarded
    guarded(main)
