#!/usr/bin/env python3
# C17: listings agree with the binary they describe (DESIGN.md section 4, C17).
from layrun import *

def xcmp_listings(ck):
    """xcmp -S: decode the image at every listed offset and compare instruction, operand and size (concrete comparison per program)"""
    import tvlib
    sys.path.insert(0, os.path.join(build.VERIF, 'gen'))
    import xgen
    tv = tvlib.TV(); n = 0; bad = 0
    try:
        for name, src in xgen.programs(ck.tier, ck.seed):
            c = tvlib.compile_x(src, tv.workdir)
            if isinstance(c, str): continue
            n += 1
            problems = tvlib.listing_vs_image(c)
            ck.obligation(not problems, max(1, len(c.entries)))
            if problems:
                bad += 1
                key = f"xcmp-listing:{name}"
                ck.violation(key, f"xcmp -S listing disagrees with the image: {problems[0]} [{name}]", ck.replay_file(key, {'source': src, 'problems': problems[:5]}), True)
    finally:
        tv.close()
    ck.cov['xcmp_listings_compared'] = n
    ck.sample({'obligation': 'xcmp -S listing vs image (concrete per program)', 'programs': n, 'disagreeing': bad})

def main():
    ck = Check('C17', 'other')
    L, shapes, results = run_family(ck, 'C17')
    xcmp_listings(ck)
    ck.assume("assertions are on what emitProgramText prints from (getByteOffset, getSize, getValue of each directive, in program order); the boost::format rendering of these numbers is outside (pinned by the repository's exit_tree test)",
              "PADDING is neither an instruction nor DATA and is exempt; labels (size 0) are exempt",
              "shape set, symbolic immediates, stubs and budgets as in C05",
              "xcmp -S listings: for every program of the C01 generator the image is decoded at each listed offset and compared with the listed instruction, operand and size - a concrete comparison per program, not a solver claim")
    ck.crosscheck()
    ck.finish("Same symbolic runs as C05. For every instruction and DATA directive z3 proves per path that the listed offset equals the offset at which the independent "
              "decoder found its encoding, the listed size equals the bytes it occupies and, for label operands, the listed value equals the operand decoded from the bytes.",
              {'exhaustive': True})

if __name__ == '__main__':
    from lib.report import guarded
    guarded(main)
