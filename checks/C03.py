#!/usr/bin/env python3
# C03: the Verilog processor (+memory) is cycle-for-cycle equivalent to the ISA (DESIGN.md section 4, C03).
from rtllib import *
from simlib import *

def ite_summary(items, w=None):
    """items: [(cond, value)] with conditions partitioning the space -> one term"""
    t = None
    for c, v in items:
        if w is not None: v = bv(v, w)
        t = v if t is None else z3.If(c, v, t)
    return t

def rtl_clock(ck, m, syms, label, junk=False):
    """settle, check the syscall request nets, then one rising clock; returns summaries of the successor"""
    pc, a, b, o, mem = syms
    E = m.engine(); st, p = m.fresh(E, mem, junk=junk)
    m.put(E, st, 'pc_q', z3.ZeroExt(11, pc)); m.put(E, st, 'areg_q', a); m.put(E, st, 'breg_q', b); m.put(E, st, 'oreg_q', o)
    for n in ('i_clk', 'i_rst', '__Vtrigrprev__TOP__i_clk', '__Vtrigrprev__TOP__i_rst'): m.put(E, st, n, 0)
    base = len(st.pc)
    sts = run_all(E, 'm_init', [p], [st]); sts = run_all(E, 'm_eval', [p], sts)
    ins = fetch_byte(mem, z3.ZeroExt(11, pc))
    for s in ([] if junk else sts):
        v = m.get(E, s, 'o_syscall_valid'); sc = m.get(E, s, 'o_syscall')
        ok, mdl = ck.prove(E, s, z3.And((bv(v, 8) != 0) == (ins == 0xD3), z3.Implies(ins == 0xD3, z3.Extract(1, 0, bv(sc, 8)) == z3.Extract(1, 0, a))),
                           f"{label}: o_syscall_valid == (fetched instruction is SVC), o_syscall == areg[1:0]")
        if not ok:
            ck.violation(f"{label}:syscall-request", f"system-call request wrong for instr={model_int(mdl, ins):#04x} areg={model_int(mdl, a):#x}: valid={mdl.eval(bv(v, 8))} call={mdl.eval(bv(sc, 8))}", None)
    def prep(s): m.put(E, s, 'i_clk', 1)
    sts = run_all(E, 'm_eval', [p], [s.fork() for s in sts], prep)
    conds = [z3.And(s.pc[base:]) if len(s.pc) > base else z3.BoolVal(True) for s in sts]
    out = {n: ite_summary([(c, m.get(E, s, n)) for c, s in zip(conds, sts)], 32) for n in ('pc_q', 'areg_q', 'breg_q', 'oreg_q')}
    out['mem'] = ite_summary([(c, m.mem(s, p).full()) for c, s in zip(conds, sts)])
    out['cover'] = z3.Or(conds)
    ck.engine(E, f'{label}: Verilator eval (settle + rising clock)')
    return out, len(sts)

def isa_step(ck, sim, syms, assume):
    pc, a, b, o, mem = syms
    pc32 = z3.ZeroExt(11, pc)
    E = sim.engine(); inb = z3.BitVec('inbyte', 8); io_cut_stubs(E, lambda k: inb)
    st = State(); st.pc = list(assume)
    p = sim.new_proc(st, mem)
    for n, v in (('pc', pc32), ('areg', a), ('breg', b), ('oreg', o), ('truncateInputs', 1), ('running', 1), ('tracing', 0), ('exitCode', 0), ('cycles', 1), ('maxCycles', 1)):
        sim.setf(E, st, p, n, v)
    base = len(st.pc)
    rs = E.run('s_run', [p], st)
    items = []
    for r in rs:
        if r.kind != 'ret': raise Inconclusive(f"ISA step path ended in {r.kind}: {r.val}")
        items.append((z3.And(r.st.pc[base:]) if len(r.st.pc) > base else z3.BoolVal(True), r.st))
    out = {n: ite_summary([(c, sim.getf(E, s, p, n)) for c, s in items], 32) for n in ('pc', 'areg', 'breg', 'oreg')}
    out['mem'] = ite_summary([(c, sim.mem(s, p).full()) for c, s in items])
    out['cover'] = z3.Or([c for c, s in items])
    ck.engine(E, 'hexsim::Processor::run (one iteration) as ISA step (decided against hexb.pdf in C02)')
    return out, len(items)

def compare(ck, m, sim, label, junk=False):
    pc = z3.BitVec('pc', 21); a, b, o = [z3.BitVec(n, 32) for n in ('areg', 'breg', 'oreg')]
    mem = z3.Array('mem', z3.BitVecSort(32), z3.BitVecSort(32))
    syms = (pc, a, b, o, mem); pc32 = z3.ZeroExt(11, pc)
    assume, ins, opc, opr = isa_assumptions(pc32, a, b, o, mem)
    # reachable-state invariant: the low nibble of oreg is clear at every instruction boundary (true after reset,
    # re-established by every instruction: oreg becomes 0 or x << 4); proved preserved below
    assume.append(o & 15 == 0)
    R, nr = rtl_clock(ck, m, syms, label, junk=junk)
    I, ni = isa_step(ck, sim, syms, assume)
    chk = Engine(m.M); s = State(); s.pc = list(assume)
    for nm, cov in (('RTL', R['cover']), ('ISA', I['cover'])):
        ok, _ = ck.prove(chk, s, cov, f"{label}: explored {nm} paths cover every state in the quantifier")
        if not ok: ck.fail_inconclusive(f"{label}: {nm} paths do not cover the state space")
    svc = z3.And(opc == 13, opr == 3)
    # addresses produced by the step must lie in the range both implementations provide
    inrange = z3.And(z3.ULT(I['pc'], 4*MEMWORDS), z3.Implies(opc == 5, z3.ULT(I['areg'], 4*MEMWORDS)))
    j = z3.BitVec('j', 32)
    claims = {
        'pc': z3.Implies(z3.And(z3.Not(svc), inrange), R['pc_q'] == I['pc']),
        'areg': z3.Implies(z3.And(z3.Not(svc), inrange), R['areg_q'] == I['areg']),
        'breg': z3.Implies(z3.And(z3.Not(svc), inrange), R['breg_q'] == I['breg']),
        'oreg': z3.Implies(z3.And(z3.Not(svc), inrange), R['oreg_q'] == I['oreg']),
        'oreg invariant (low nibble clear) is preserved': R['oreg_q'] & 15 == 0,
        'memory (words the ISA has)': z3.Implies(z3.And(z3.Not(svc), inrange, z3.ULT(j, MEMWORDS)), z3.Select(R['mem'], j) == z3.Select(I['mem'], j)),
        'memory (words above the ISA range untouched)': z3.Implies(z3.And(z3.UGE(j, MEMWORDS), z3.ULT(j, RTL_MEMWORDS)), z3.Select(R['mem'], j) == z3.Select(mem, j)),
        'SVC leaves state to the testbench': z3.Implies(svc, z3.And(R['pc_q'] == pc32 + 1, R['oreg_q'] == 0, R['areg_q'] == a, R['breg_q'] == b,
                                                                    z3.Implies(z3.ULT(j, RTL_MEMWORDS), z3.Select(R['mem'], j) == z3.Select(mem, j)))),
    }
    for what, c in claims.items():
        ok, mdl = ck.prove(chk, s, c, f"{label}: after one clock {what} equals the ISA successor")
        if not ok and junk:
            confirm_rtl_hidden(ck, label, what, [(k, model_int(mdl, v)) for k, v in m.junk if not k.startswith('__PVT__') or True][:12]); return
        if not ok:
            vals = {str(v): model_int(mdl, v) for v in (pc, a, b, o)}
            iv = model_int(mdl, ins)
            key = f"{label}:{what}:opc={iv >> 4:x}"
            detail = {k: [str(mdl.eval(R[rk], model_completion=True)), str(mdl.eval(I[ik], model_completion=True))] for k, rk, ik in (('pc', 'pc_q', 'pc'), ('areg', 'areg_q', 'areg'), ('breg', 'breg_q', 'breg'), ('oreg', 'oreg_q', 'oreg'))}
            rp = ck.replay_file(key, {'state': vals, 'instr': iv, 'rtl_vs_isa': detail, 'j': model_int(mdl, j)})
            ck.violation(key, f"{label}: {what} differs from the ISA successor for instr={iv:#04x} pc={vals['pc']} areg={vals['areg']:#x} breg={vals['breg']:#x} oreg={vals['oreg']:#x}: rtl/isa {detail}", rp, True)
    ck.engine(chk)
    ck.sample({'model': label, 'rtl_paths_after_clock': nr, 'isa_paths': ni})

def selfmod_image(lane):
    """hand-encoded image: a STAM rewrites the word it sits in (at byte lane `lane` of that word); the rewritten word then loads 0 instead of 1
    into the exit value. ISA result: exit status 0."""
    def w(bs): return sum(b << (8*i) for i, b in enumerate(bs))
    words = [0]*16
    words[0] = w([0x97, 0, 0, 0])                 # BR 7 -> byte 8
    words[1] = 1000                               # stack pointer
    # word 2 (bytes 8..11): LDAM 6 ; fill to reach the chosen lane of word 3
    seq = [0x06] + [0x40] * (3 + lane)            # LDAM 6 ; LDBC 0 ...
    old = [0x23, 0x31, 0x11, 0x82]                # STAM 3 ; LDAC 1 ; LDBM 1 ; STAI 2
    new = [0x23, 0x30, 0x11, 0x82]                # STAM 3 ; LDAC 0 ; LDBM 1 ; STAI 2
    code = seq + old[: 4 - lane] if lane == 0 else None
    if lane == 0:
        bytes_ = seq + old + [0x30, 0xD3, 0, 0]
        words[6] = w(new)
    else:
        # store in lane 1 behind a PFIX 0: word 3 = [PFIX 0, STAM 3, LDAC x, LDBM 1]; next word: STAI 2 ; LDAC 0 ; SVC
        seq = [0x06, 0x40, 0x40, 0x40]
        oldw = [0xE0, 0x23, 0x31, 0x11]; neww = [0xE0, 0x23, 0x30, 0x11]
        bytes_ = seq + oldw + [0x82, 0x30, 0xD3, 0]
        words[6] = w(neww)
    for i in range(0, len(bytes_), 4): words[2 + i//4] = w(bytes_[i:i+4])
    return struct.pack('<I', len(words)) + b''.join(struct.pack('<I', x) for x in words)

def confirm_rtl_hidden(ck, label, what, junkvals):
    """the clock depends on a design member outside pc/areg/breg/oreg/memory. Confirm on the hextb built from the working
    tree with self-modifying images (a store into the word being executed)."""
    import tempfile, shutil
    d = tempfile.mkdtemp(dir=os.path.join(build.VERIF, 'build')); found = None
    try:
        hextb = build.tool_hextb(); hexsim = build.tool('hexsim')
        for lane in (0, 1):
            p = os.path.join(d, f'selfmod{lane}.bin'); open(p, 'wb').write(selfmod_image(lane))
            r1 = subprocess.run([hexsim, p], capture_output=True, timeout=60); r2 = subprocess.run([hextb, p], cwd=d, capture_output=True, timeout=120)
            if (r1.returncode, r1.stdout) != (r2.returncode, r2.stdout.replace(b"Wrote 64 bytes to memory\n", b"")): found = {'image': f'store into its own word at byte lane {lane}', 'hexsim_exit': r1.returncode, 'hextb_exit': r2.returncode}; break
    finally: shutil.rmtree(d, ignore_errors=True)
    key = f"{label}:hidden-state"
    msg = (f"{label}: the clocked design keeps state outside pc/areg/breg/oreg/memory that the next instruction depends on ({what} differs from the ISA successor "
           f"for some value of {[k for k, v in junkvals][:6]})")
    if found: msg += f"; native witness: {found}"
    ck.violation(key, msg, ck.replay_file(key, {'members': junkvals, 'native': found}), found is not None)

def main():
    ck = Check('C03', 'other')
    sim = Sim(noinline=True)
    compare(ck, HexModel(), sim, 'hex(processor.sv)')
    if not ck.violations:
        compare(ck, HexModel(), sim, 'hex(processor.sv), other design members arbitrary', junk=True)
    if ck.tier == 'thorough':
        compare(ck, HexModel(['verilog/hex_pkg.sv', 'verilog/hex.sv', 'verilog/processor.v', 'verilog/memory.sv'], tag='hex_v'), sim, 'hex(processor.v)')
    ck.assume("quantifier: pc < 800000, effective word addresses < 200000, defined opcodes (as C02); the successor pc and an LDAP result are byte addresses < 800000 (the range both implementations provide)",
              "inductive invariant: oreg & 15 == 0 at instruction boundaries (holds after reset, proved preserved by every clock); states violating it are unreachable and excluded",
              "noninterference: the comparison is repeated with every other scalar member of the Verilated design (registers or nets the harness does not know) holding arbitrary values; nets are recomputed by the settle evaluation, so only added state can matter; a dependence is confirmed on the hextb built from the working tree with self-modifying images",
              "relation: registers equal (pc zero-extended), RTL memory_q[i] == ISA memory[i] for i < 200000",
              "the ISA side is hexsim's step, itself decided against the hexb.pdf reference in C02",
              "Verilator 5.006 two-state semantics with the CMake build's arguments (--top-module hex --prefix Vhex_pkg --trace); generated constructors replaced by explicit wiring of the object graph",
              "one clock from an arbitrary related state: inductive for all runs; reset/start-up is C13, system-call servicing by the testbench is C06")
    ck.crosscheck()
    ck.finish("The C++ Verilator generates for hex.sv/processor.sv/memory.sv is executed symbolically: settle, then one rising clock, from an arbitrary state "
              "(pc 21 bit, areg/breg/oreg 32 bit, 2^19-word memory as SMT array). hexsim's step runs from the related state. On ite-summaries over the explored paths "
              "(proved to cover the quantifier) z3 proves: registers equal, memory equal on the ISA's words and untouched above, o_syscall_valid/o_syscall as specified, "
              "and SVC changing nothing but pc+1/oreg.")

if __name__ == '__main__':
    from lib.report import guarded
    guarded(main)
