#!/usr/bin/env python3
# C02: hexsim executes every instruction exactly as the Hex ISA defines (DESIGN.md section 4, C02).
from simlib import *

def step_compare(ck, sim, ref, trunc=1, label='step', extra_assume=(), steps=1, junk_hidden=False):
    """one Processor::run iteration from an arbitrary state against ref_step() of hexb.pdf"""
    pc, a, b, o = [z3.BitVec(n, 32) for n in ('pc', 'areg', 'breg', 'oreg')]
    mem = z3.Array('mem', z3.BitVecSort(32), z3.BitVecSort(32))
    inb = z3.BitVec('inbyte', 8); cyc = z3.BitVec('cyc', 64)
    exit0 = z3.BitVec('exit0', 32)
    assume, ins, opc, opr = isa_assumptions(pc, a, b, o, mem)
    assume += [z3.UGE(cyc, 1), z3.ULT(cyc, 1 << 40)] + list(extra_assume)
    EI = sim.engine(); io_cut_stubs(EI, lambda k: inb)
    st = State()
    # the object comes from its real constructor: members outside the architectural state hold their constructed values,
    # so any hidden state the step function keeps between instructions is exercised by the multi-step obligation
    st, p = sim.constructed_proc(EI, st, mem)
    st.pc = list(st.pc) + list(assume)
    hidden = []
    if junk_hidden:
        # every member the constructor initialises and this harness does not know is given an arbitrary value: the
        # architectural successor must not depend on it (a step function with state outside pc/areg/breg/oreg/memory
        # does not yield 'the' ISA successor of an architectural state)
        known = []
        for n_, w_ in FW.items(): known.append((sim.off[n_], sim.off[n_] + w_))
        known += [(sim.off['memory'], sim.off['memory'] + (8 if sim.heap_memory else 4*sim.memwords)), (sim.off['io'], sim.off['io'] + sim.io_size), (sim.off['out'], sim.off['out'] + 8),
                  (sim.off['debugInfo'], sim.off['debugInfo'] + 24), (sim.off['debugInfoMap'], sim.off['debugInfoMap'] + 48)]
        o_ = st.wobj(p.obj)
        for off_, (sz_, val_) in sorted(o_.cells.items()):
            if any(lo <= off_ < hi for lo, hi in known) or isinstance(val_, (Ptr, PtrIte, Undef)): continue
            j_ = z3.BitVec(f'hidden_member_at_{off_}', 8*sz_); o_.cells[off_] = (sz_, j_); hidden.append((off_, j_))
        for lo_, hi_ in list(o_.zero):
            for off_ in range(lo_, hi_, 4):
                if off_ + 4 <= hi_ and not any(lo <= off_ < hi for lo, hi in known) and off_ not in o_.cells:
                    j_ = z3.BitVec(f'hidden_member_at_{off_}', 32); o_.cells[off_] = (4, j_); hidden.append((off_, j_))
    ck.cov.setdefault('hidden_members', [])
    ck.cov['hidden_members'] = [off_ for off_, _ in hidden] or ck.cov['hidden_members']
    for n, v in (('pc', pc), ('areg', a), ('breg', b), ('oreg', o)): sim.setf(EI, st, p, n, v)
    sim.setf(EI, st, p, 'truncateInputs', trunc); sim.setf(EI, st, p, 'running', 1); sim.setf(EI, st, p, 'tracing', 0)
    sim.setf(EI, st, p, 'exitCode', exit0); sim.setf(EI, st, p, 'cycles', cyc); sim.setf(EI, st, p, 'maxCycles', cyc)
    resI = EI.run('s_run', [p], st)
    for extra in range(steps - 1):
        # continue each returning path by one more iteration of run(); the next instruction must lie inside the
        # property's quantifier too, so its conditions are assumed on the successor state
        nxt = []
        for rI in resI:
            if rI.kind != 'ret': nxt.append(rI); continue
            s1 = rI.st
            run1 = sim.getf(EI, s1, p, 'running')
            if is_c(run1) and run1 == 0: continue          # the program exited on the first instruction
            a2, _, _, _ = isa_assumptions(bv(sim.getf(EI, s1, p, 'pc'), 32), bv(sim.getf(EI, s1, p, 'areg'), 32), bv(sim.getf(EI, s1, p, 'breg'), 32),
                                          bv(sim.getf(EI, s1, p, 'oreg'), 32), sim.mem(s1, p).full())
            s1.pc = list(s1.pc) + a2; s1.model = None
            if not EI.sat(s1)[0]: continue
            sim.setf(EI, s1, p, 'maxCycles', cyc + 1 + extra)
            nxt += EI.run('s_run', [p], s1)
        resI = nxt
    ER = ref.engine(); Ref.io_stubs(ER, lambda k: inb)
    nprod = 0
    for rI in resI:
        sI = rI.st
        if rI.kind != 'ret':
            ok_, m = EI.sat(sI)
            report_step(ck, sim, m, (pc, a, b, o, mem, inb), f"{label}: implementation path ends in {rI.kind}: {rI.val}", trunc)
            continue
        sr = ref.state(sI.pc, dict(pc=pc, areg=a, breg=b, oreg=o), mem, exit0=exit0)
        refruns = ER.run('ref_step', [], sr)
        for extra in range(steps - 1):
            nxt = []
            for rR in refruns:
                if rR.kind != 'ret': nxt.append(rR); continue
                if is_c(Ref.reg(rR.st, 'running')) and Ref.reg(rR.st, 'running') == 0: nxt.append(rR); continue
                nxt += ER.run('ref_step', [], rR.st)
            refruns = nxt
        for rR in refruns:
            sR = rR.st
            if rR.kind != 'ret':
                # the reference left the property's quantifier on the second step (undefined instruction, address out of range): outside
                continue
            nprod += 1
            diffs = []
            for nm in ('pc', 'areg', 'breg', 'oreg'):
                diffs.append(bv(sim.getf(EI, sI, p, nm), 32) != bv(Ref.reg(sR, nm), 32))
            j = z3.BitVec('j', 32)
            diffs.append(z3.Select(sim.mem(sI, p).full(), j) != z3.Select(Ref.mem(sR).full(), j))
            run_i = bv(sim.getf(EI, sI, p, 'running'), 8); run_r = bv(Ref.reg(sR, 'running'), 32)
            diffs.append((run_i != 0) != (run_r != 0))
            diffs.append(z3.And(run_r == 0, bv(rI.val, 32) != bv(Ref.reg(sR, 'exitvalue'), 32)))
            diffs.append(z3.And(run_r == 0, bv(sim.getf(EI, sI, p, 'exitCode'), 32) != bv(Ref.reg(sR, 'exitvalue'), 32)))
            evI = [e for e in sI.events if e[0] in ('out', 'in')]; evR = sR.events
            if len(evI) != len(evR) or any(x[0] != y[0] for x, y in zip(evI, evR)): diffs.append(z3.BoolVal(True))
            else:
                for eI, eR in zip(evI, evR):
                    if eI[0] == 'out':
                        diffs.append(z3.Extract(7, 0, bv(eR[1], 32)) != bv(eI[1], 8)); diffs.append(bv(eI[2], 32) != bv(eR[2], 32))
                    else: diffs.append(bv(eI[1], 32) != bv(eR[1], 32))
            if trunc == 0:
                pass
            ok, m = ck.prove(ER, sR, z3.Not(z3.Or(diffs)), f"{label}: successor state, memory, running/exit value and I/O events equal the reference")
            if not ok:
                if junk_hidden and not any(v[0].startswith('step:') for v in ck.violations):
                    dep = [off_ for off_, j_ in hidden]
                    confirm_hidden(ck, sim, dep, {str(j_): model_int(m, j_) for off_, j_ in hidden}, (model_int(m, pc), model_int(m, ins)))
                else:
                    report_step(ck, sim, m, (pc, a, b, o, mem, inb), f"{label}: successor differs from the ISA reference", trunc)
            elif len(ck.cov['samples']) < 6:
                ck.sample({'impl_path': [str(z3.simplify(c))[:70] for c in sI.pc[len(assume):]][:4], 'events': [e[0] for e in evI]})
    ck.engine(EI, 'hexsim::Processor::run (one iteration) + syscall'); ck.engine(ER, 'ref_step (hexb.pdf)')
    return len(resI), nprod

def report_step(ck, sim, m, syms, what, trunc):
    """replay a counterexample state on the native Processor::run and on a Python ISA step"""
    pc, a, b, o, mem, inb = syms
    vals = {n: model_int(m, v) for n, v in (('pc', pc), ('areg', a), ('breg', b), ('oreg', o), ('inb', inb))}
    fetch_w = vals['pc'] >> 2
    words = {}
    def mw(i):
        i &= 0xffffffff
        if i not in words: words[i] = model_int(m, z3.Select(mem, z3.BitVecVal(i, 32)))
        return words[i]
    insb = (mw(fetch_w) >> ((vals['pc'] & 3) * 8)) & 0xff
    opr = vals['oreg'] | (insb & 15); opc = insb >> 4
    sp = mw(1)
    for i in (opr, vals['areg'] + opr, vals['breg'] + opr, sp + 1, sp + 2, sp + 3):
        if (i & 0xffffffff) < MEMWORDS: mw(i)
    exp = isa_step_concrete(dict(vals), dict(words))
    watch = sorted(i for i in words if i < MEMWORDS)
    line = f"step {vals['pc']} {vals['areg']} {vals['breg']} {vals['oreg']} {trunc} " + ' '.join(f"m {i} {words[i]}" for i in watch) + ' ' + ' '.join(f"w {i}" for i in watch) + f" in {sgn(vals['inb'], 8)}"
    out, _ = run_native(sim.native(), line + "\n")
    got = out.split()
    confirmed = True
    try:
        g = dict(pc=int(got[0]), areg=int(got[1]), breg=int(got[2]), oreg=int(got[3]), running=int(got[4]), rv=int(got[5]) & 0xffffffff)
        oi = got.index('out'); mi = got.index('mem')
        g['out'] = [int(x) for x in got[oi+1:mi]]
        memend = got.index('exception') if 'exception' in got else len(got)
        g['mem'] = [int(x) for x in got[mi+1:memend]]
        same = all(g[k] == exp[k] for k in ('pc', 'areg', 'breg', 'oreg', 'running')) and g['out'] == exp['out'] and \
               g['mem'] == [exp['mem'].get(i, 0) for i in watch] and (exp['running'] or g['rv'] == exp['exit']) and 'exception' not in got
        confirmed = not same
    except Exception:
        confirmed = True
    key = f"step:opc={opc:x}:opr={opr & 0xffffffff:x}"
    rp = ck.replay_file(key, {'native_input': line, 'native_output': out.strip(), 'expected': {k: v for k, v in exp.items() if k != 'mem'}})
    ck.violation(key, what + f" [state pc={vals['pc']} areg={vals['areg']:#x} breg={vals['breg']:#x} oreg={vals['oreg']:#x} instr={insb:#04x}]", rp, confirmed)

def confirm_hidden(ck, sim, offsets, junk, where):
    """the step depends on members outside the architectural state. Confirm on the native build with self-modifying
    sequences: a store rewrites the word being executed and execution continues into the rewritten bytes."""
    nat = sim.native(); found = None
    for w0 in (3, 10):
        for (x_old, x_new) in ((0x31, 0x30), (0x41, 0x42), (0x35, 0x3A)):
            for store in ('STAM', 'STAI'):
                n = 40
                if store == 'STAM': b0 = [0x00 | 0, 0x20 | w0 if w0 < 16 else None]
                # LDAM n (prefix + op) ; STAM w0 ; X ; pad   -- keep it to one word: n < 16 is not possible for 40, so use PFIX
                seq = None
                for layout in (1,):
                    # word w0: [PFIX 2, LDAM 8] = LDAM 40 ; word w0+... keep simple: place LDAM 40 in word w0-1 (bytes 2,3), then word w0 = [STAM w0 | X | LDBM 1 | LDBM 1]
                    words = {}
                    words[w0 - 1] = (0xE2 << 16) | (0x08 << 24)           # bytes 2,3 of the previous word: PFIX 2 ; LDAM 8  -> areg = mem[40]
                    if store == 'STAM': first = 0x20 | w0
                    else: first = 0x80 | w0                                 # STAI w0 with breg = 0
                    words[w0] = first | (x_old << 8) | (0x41 << 16) | (0x41 << 24)
                    words[40] = first | (x_new << 8) | (0x41 << 16) | (0x41 << 24)
                    pc0 = 4*(w0 - 1) + 2
                    regs = dict(pc=pc0, areg=0, breg=0, oreg=0, inb=0)
                    memd = dict(words)
                    exp = None; r_ = dict(regs); md = dict(memd)
                    for k in range(4):
                        e = isa_step_concrete(r_, md); r_ = dict(pc=e['pc'], areg=e['areg'], breg=e['breg'], oreg=e['oreg'], inb=0); md = e['mem']
                    line = f"stepn 4 {pc0} 0 0 0 1 " + ' '.join(f"m {i} {v}" for i, v in sorted(words.items()))
                    out, _ = run_native(nat, line + "\n"); t = out.split()
                    try: got = dict(pc=int(t[0]), areg=int(t[1]), breg=int(t[2]), oreg=int(t[3]))
                    except Exception: continue
                    if any(got[k] != r_[k] for k in ('pc', 'areg', 'breg', 'oreg')):
                        found = dict(native_input=line, native=got, isa={k: r_[k] for k in ('pc', 'areg', 'breg', 'oreg')}); break
                if found: break
            if found: break
        if found: break
    key = "hidden-state"
    what = (f"the step function depends on members outside the architectural state (object offsets {offsets}): with arbitrary values there the successor of instruction "
            f"{where[1]:#04x} at pc {where[0]} differs from the ISA reference")
    rp = ck.replay_file(key, {'dependent_offsets': offsets, 'junk_values': junk, 'native_self_modifying_witness': found})
    if found: what += f"; native witness: {found['native_input']} -> {found['native']} but the ISA gives {found['isa']}"
    ck.violation(key, what, rp, found is not None)

def isa_step_concrete(r, mem):
    """independent concrete ISA step (hexb.pdf) for replay comparison"""
    M = 0xffffffff
    g = lambda i: mem.get(i & M, 0)
    pc = r['pc']; ins = (g(pc >> 2) >> ((pc & 3) * 8)) & 0xff
    pc = (pc + 1) & M; a, b = r['areg'], r['breg']; o = r['oreg'] | (ins & 15); opc = ins >> 4
    out = []; running = 1; ex = 0
    if opc == 0: a = g(o); o = 0
    elif opc == 1: b = g(o); o = 0
    elif opc == 2: mem[o] = a; o = 0
    elif opc == 3: a = o; o = 0
    elif opc == 4: b = o; o = 0
    elif opc == 5: a = (pc + o) & M; o = 0
    elif opc == 6: a = g(a + o); o = 0
    elif opc == 7: b = g(b + o); o = 0
    elif opc == 8: mem[(b + o) & M] = a; o = 0
    elif opc == 9: pc = (pc + o) & M; o = 0
    elif opc == 10:
        if a == 0: pc = (pc + o) & M
        o = 0
    elif opc == 11:
        if a >> 31: pc = (pc + o) & M
        o = 0
    elif opc == 14: o = (o << 4) & M
    elif opc == 15: o = (0xFFFFFF00 | (o << 4)) & M
    elif opc == 13:
        if o == 0: pc = b
        elif o == 1: a = (a + b) & M
        elif o == 2: a = (a - b) & M
        elif o == 3:
            sp = g(1)
            if a == 0: running = 0; ex = g(sp + 2)
            elif a == 1: out.append(g(sp + 2) & 0xff)
            elif a == 2: mem[(sp + 1) & M] = r['inb'] & 0xff
        o = 0
    return dict(pc=pc, areg=a, breg=b, oreg=o, running=running, exit=ex, out=out, mem=mem)

def hidden_state(ck, sim, ref):
    """noninterference: the step from an object whose non-architectural, constructor-initialised members hold arbitrary
    values must still equal the reference step. On the shipped code there are no such members and this adds nothing; a
    fetch buffer, decoded-instruction cache or the like makes the successor depend on them."""
    before = len(ck.violations) + len(ck.inconclusive)
    ni, nprod = step_compare(ck, sim, ref, trunc=1, label='hidden-state', junk_hidden=True)
    return ni, nprod

def selfcheck(ck, sim, rnd, n=40):
    """engine validation: concrete random states through the native build and through the interpreter"""
    nat = sim.native(); lines = []; exp = []
    E = sim.engine()
    inbv = [0]
    io_cut_stubs(E, lambda k: inbv[0])
    for i in range(n):
        opc = rnd.choice([0, 1, 2, 3, 4, 5, 6, 7, 8, 9, 10, 11, 13, 14, 15]); opd = rnd.randint(0, 15) if opc != 13 else rnd.randint(0, 3)
        pc = rnd.randint(0, 4000); a = rnd.choice([0, 1, 2, rnd.randint(0, 2**32-1), rnd.randint(0, 1000)]); b = rnd.randint(0, 1000); o = rnd.choice([0, 0, rnd.randint(0, 50) << 4])
        if opc == 13: o = 0
        if opc == 13 and opd == 3: a = rnd.randint(0, 2)
        if opc == 6: a = rnd.randint(0, 1000)
        words = {pc >> 2: ((opc << 4 | opd) << ((pc & 3) * 8)) | (rnd.randint(0, 2**32-1) & ~(0xff << ((pc & 3) * 8)))}
        words[1] = rnd.randint(100, 5000)
        for k in range(8): words.setdefault(rnd.randint(0, 6000), rnd.randint(0, 2**32-1))
        inb = rnd.randint(-1, 255)
        watch = sorted(words) + [x for x in ((o | opd), a + (o | opd), b + (o | opd), words[1] + 1) if x < MEMWORDS]
        watch = sorted(set(watch))
        lines.append(f"step {pc} {a} {b} {o} 1 " + ' '.join(f"m {i} {v}" for i, v in sorted(words.items())) + ' ' + ' '.join(f"w {i}" for i in watch) + f" in {inb}")
        st = State(); arr = z3.K(z3.BitVecSort(32), z3.BitVecVal(0, 32))
        p = sim.new_proc(st, arr, dict(words))
        for nme, v in (('pc', pc), ('areg', a), ('breg', b), ('oreg', o), ('truncateInputs', 1), ('running', 1), ('tracing', 0), ('exitCode', 0), ('cycles', 1), ('maxCycles', 1)):
            sim.setf(E, st, p, nme, v)
        inbv[0] = inb & 0xff
        rs = E.run('s_run', [p], st)
        if len(rs) != 1 or rs[0].kind != 'ret': exp.append(('exc',)); continue
        s2 = rs[0].st
        exp.append((sim.getf(E, s2, p, 'pc'), sim.getf(E, s2, p, 'areg'), sim.getf(E, s2, p, 'breg'), sim.getf(E, s2, p, 'oreg'), sim.getf(E, s2, p, 'running'),
                    [e[1] & 0xff for e in s2.events if e[0] == 'out'], [sim.mem(s2, p).get(i) for i in watch]))
    out, _ = run_native(nat, '\n'.join(lines) + '\n')
    for line, e in zip(out.strip().split('\n'), exp):
        t = line.split(); ck.cov['selfcheck_vectors'] += 1
        if e[0] == 'exc':
            if 'exception' not in t: ck.fail_inconclusive("self-check: engine threw, native did not: " + line)
            continue
        oi, mi = t.index('out'), t.index('mem')
        g = ([int(x) for x in t[:5]], [int(x) for x in t[oi+1:mi]], [int(x) for x in t[mi+1:]])
        if g != ([e[0], e[1], e[2], e[3], e[4]], e[5], e[6]):
            ck.fail_inconclusive(f"engine self-check mismatch (step): native {g} engine {e}")
    ck.engine(E)

def routing(ck, sim):
    """HexSimIO::output / input with a symbolic stream number: < 256 -> the given streams, else file slot (s>>8)&7,
    opened on first use only"""
    s = z3.BitVec('stream', 32); v = z3.BitVec('val', 8); conn = [z3.BitVec(f'conn{i}', 8) for i in range(8)]
    getv = z3.BitVec('getv', 32)
    for fn in ('io_output', 'io_input'):
        E = sim.engine()
        def ins_(E_, st, a): st.events.append(('ostream<<', a[0], E_.read_bytes(st, a[1], a[2]))); return a[0]
        def put_(E_, st, a): st.events.append(('put', a[0], a[1])); return a[0]
        def get_(E_, st, a): st.events.append(('get', a[0])); return getv
        def open_(E_, st, a):
            name = bytes(stubs.Str(E_, st, a[1]).data()); st.events.append(('open', a[0], name, a[2])); return None
        E.stubs['_ZSt16__ostream_insertIcSt11char_traitsIcEERSt13basic_ostreamIT_T0_ES6_PKS3_l'] = ins_
        E.stubs['_ZStlsISt11char_traitsIcEERSt13basic_ostreamIcT_ES5_c'] = lambda E_, st, a: (st.events.append(('ostream<<', a[0], [a[1]])), a[0])[1]
        E.stubs['_ZNSo3putEc'] = put_; E.stubs['_ZNSi3getEv'] = get_
        E.stubs['_ZNSt13basic_fstreamIcSt11char_traitsIcEE4openERKNSt7__cxx1112basic_stringIcS1_SaIcEEESt13_Ios_Openmode'] = open_
        def fbopen_(E_, st, a):
            bs = []; k = 0
            while True:
                b = E_.load(st, a[1].add(k), 1)
                if is_c(b) and b == 0: break
                bs.append(b); k += 1
            st.events.append(('open', a[0], bs, a[2])); return a[0]
        E.stubs['_ZNSt13basic_filebufIcSt11char_traitsIcEE4openEPKcSt13_Ios_Openmode'] = fbopen_
        E.stubs['_ZNSt9basic_iosIcSt11char_traitsIcEE5clearESt12_Ios_Iostate'] = lambda E_, st, a: None
        st = State(); st.pc = [z3.Or(c == 0, c == 1) for c in conn] + [z3.And(getv >= -1, getv <= 255)]
        io = st.alloc(sim.io_size, 'HexSimIO'); IN = st.alloc(300, 'istream'); OUT = st.alloc(300, 'ostream')
        # the caller's streams are constructed objects in their default state (vptr -> vbase offset, width 0)
        svt = st.alloc(64, 'stream-vtable'); st.objs[svt.obj].cells[0] = (8, 16)
        for so in (IN, OUT):
            st.objs[so.obj].zero.append((8, 300)); st.objs[so.obj].cells[0] = (8, svt.add(24))
        E.store(st, io.add(sim.io_off['in']), 8, IN); E.store(st, io.add(sim.io_off['out']), 8, OUT)
        for i in range(8): E.store(st, io.add(sim.io_off['connected'] + i), 1, conn[i])
        # the eight std::fstream objects are "constructed": they carry a vptr whose vbase offset locates the ios sub-object
        fvt = st.alloc(64, 'fstream-vtable'); st.objs[fvt.obj].cells[0] = (8, 264)
        for i in range(8): E.store(st, io.add(sim.io_off['fileIO'] + i*sim.fstream_size), 8, fvt.add(24))
        args = [io, v, s] if fn == 'io_output' else [io, s]
        rs = E.run(fn, args, st)
        for r in rs:
            if r.kind != 'ret':
                ok_, m = E.sat(r.st)
                ck.violation(f"routing:{fn}:{r.kind}", f"{fn}: path ends in {r.kind}: {r.val} (stream={model_int(m, s)})", None); continue
            ev = r.st.events; claims = []
            lo = s < 256        # signed comparison, as in the source (int stream)
            idx = z3.Extract(2, 0, z3.LShR(s, 8))
            fbase = sim.io_off['fileIO']
            FS = sim.fstream_size
            def slot_of(ptr):
                """slot index of a pointer into fileIO[] as a 64-bit z3 term (or None)"""
                if ptr.obj != io.obj: return None
                return z3.UDiv(bv(ptr.off, 64) - fbase, z3.BitVecVal(FS, 64))
            def conn_at(k64):
                e = conn[7]
                for i in range(6, -1, -1): e = z3.If(k64 == i, conn[i], e)
                return e
            def name_ok(bs, prefix, k64):
                if len(bs) != len(prefix) + 1: return z3.BoolVal(False)
                return z3.And([bv(x, 8) == y for x, y in zip(bs, prefix)] + [z3.ZeroExt(56, bv(bs[-1], 8)) == k64 + 48])
            kinds = [e[0] for e in ev]
            idx64 = z3.ZeroExt(61, idx)
            if fn == 'io_output':
                if kinds == ['ostream<<']:
                    claims += [lo, z3.BoolVal(ev[0][1] == OUT), z3.BoolVal(len(ev[0][2]) == 1), bv(ev[0][2][0], 8) == v]
                elif kinds == ['put'] and ev[0][1] == OUT:
                    claims += [lo, bv(ev[0][2], 8) == v]
                elif kinds in (['put'], ['open', 'put']) and slot_of(ev[-1][1]) is not None:
                    pe = ev[-1]; k = slot_of(pe[1])      # put() is called on the ostream sub-object inside slot k
                    claims += [z3.Not(lo), idx64 == k, bv(pe[2], 8) == v, z3.ULT(k, 8)]
                    claims.append((conn_at(k) == 0) if kinds[0] == 'open' else (conn_at(k) != 0))
                    if kinds[0] == 'open':
                        claims += [slot_of(ev[0][1]) == k, name_ok(ev[0][2], b'simout', k)]
                        cafter = r.st.objs[io.obj]
                        claims.append(z3.Or([z3.And(k == i, bv(E.load(r.st, io.add(sim.io_off['connected'] + i), 1), 8) != 0) for i in range(8)]))
                else: claims.append(z3.BoolVal(False))
            else:
                rv = r.val
                if kinds == ['get'] and ev[0][1] == IN:
                    claims += [lo, bv(rv, 8) == z3.Extract(7, 0, getv)]
                elif kinds in (['get'], ['open', 'get']) and slot_of(ev[-1][1]) is not None:
                    ge = ev[-1]; k = slot_of(ge[1])
                    claims += [z3.Not(lo), idx64 == k, bv(rv, 8) == z3.Extract(7, 0, getv), z3.ULT(k, 8)]
                    claims.append((conn_at(k) == 0) if kinds[0] == 'open' else (conn_at(k) != 0))
                    if kinds[0] == 'open': claims += [slot_of(ev[0][1]) == k, name_ok(ev[0][2], b'simin', k)]
                else: claims.append(z3.BoolVal(False))
            ok, m = ck.prove(E, r.st, z3.And(claims), f"{fn}: stream routing")
            if not ok:
                ck.violation(f"routing:{fn}", f"{fn}: wrong routing for stream={model_int(m, s)} events={kinds}", None)
        ck.engine(E, 'hex::HexSimIO::' + fn[3:])

def main():
    ck = Check('C02', 'other')
    rnd = random.Random(ck.seed)
    sim = Sim(); ref = Ref()
    selfcheck(ck, sim, rnd, 40 if ck.tier == 'quick' else 400)
    ni, nprod = step_compare(ck, sim, ref, trunc=1)
    ni2, nprod2 = hidden_state(ck, sim, ref)
    sim2 = Sim(noinline=False)
    routing(ck, sim2)
    import loader
    loader.check_loader(ck, sim2, nmax=4 if ck.tier == 'quick' else 16)
    ck.assume("quantifier of the property: pc < 800000; effective word address < 200000; SVC with areg <= 2 and mem[1]+3 < 200000; opcode != 0xC; OPR operand <= 3",
              "HexSimIO::output/input cut to (byte, stream) events in the step comparison; their routing is decided by a separate obligation with std::ostream/istream/fstream members stubbed as events (file name checked, file contents outside)",
              "truncateInputs = true (the CLI default); tracing off (trace is covered by C12/C15)",
              "reference = docs/PDFs/hexb.pdf simulator transcribed to ref/hexref.c, run by the same engine; exit value = mem[sp+2] per the repository's syscall ABI",
              "one step from an arbitrary architectural state: inductive for all finite runs provided the step function keeps no state outside (pc, areg, breg, oreg, memory); "
              "that proviso is a second obligation: every other constructor-initialised member of the object is given an arbitrary value and the successor must still equal the reference (noninterference); a dependence is reported with the member's offset and confirmed natively by a self-modifying two-instruction search (thorough tier additionally runs two consecutive symbolic steps)",
              "loader: std::ifstream members stubbed over a symbolic byte string; header word == number of image words; n <= bound")
    ck.crosscheck()
    ck.finish("One iteration of hexsim::Processor::run (+ syscall) is executed symbolically from an arbitrary architectural state "
              "(pc, areg, breg, oreg 32-bit symbolic, whole memory an SMT array, input byte symbolic) and compared per path product with ref_step() "
              "of the hexb.pdf reference run from the same state: registers, extensional memory equality (fresh index), running flag, exit value, I/O events. "
              "Further obligations: stream routing of HexSimIO with symbolic stream number and connection flags; the image loader on symbolic files.",
              {'impl_paths': ni, 'path_products': nprod, 'hidden_state_impl_paths': ni2, 'hidden_state_path_products': nprod2})

if __name__ == '__main__':
    from lib.report import guarded
    guarded(main)
