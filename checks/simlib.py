# S family: hexsim::Processor under the engine, the hexb.pdf reference step, comparison helpers.
from common import *

F = dict(pc=0, areg=1, breg=2, oreg=3, instr=4, memory=5, io=6, truncateInputs=7, running=8, tracing=9, exitCode=10,
         lastPC=11, cycles=12, maxCycles=13, instrEnum=14, debugInfo=15, debugInfoMap=16, out=17)
FW = dict(pc=4, areg=4, breg=4, oreg=4, instr=4, truncateInputs=1, running=1, tracing=1, exitCode=4, lastPC=4, cycles=8, maxCycles=8, instrEnum=4)
MEMWORDS = 200000

class Sim:
    """hexsim.hpp compiled to IR plus field offsets obtained by running the accessor functions"""
    def __init__(self, noinline=True):
        # noinline=True keeps HexSimIO::output/input, trace, syscall as call boundaries that can be cut;
        # noinline=False is used where std::string/stream code must run from the headers' inline definitions
        self.ll = build.ir('sim.cpp', extra=['-fno-inline'] if noinline else [])
        self.M = parse_module(self.ll)
        E = Engine(self.M); stubs.install(E)
        st = State()
        self.size = E.run1('s_size', [], st)[1]
        self.memwords = E.run1('s_memwords', [], st)[1]
        p = st.alloc(self.size, 'Processor')
        self.off = {}
        # reference members: the accessor returns the referent, so plant marker pointers to learn the field offset
        mark = st.alloc(max(self.size, 1 << 20), 'marker')
        def plant(obj, lo, hi):
            for o_ in range(lo, hi, 8): st.objs[obj.obj].cells[o_] = (8, Ptr(mark.obj, o_))
        for name, k in F.items():
            if name in ('out', 'memory'): continue
            st, q = E.run1('s_field', [p, k], st); self.off[name] = q.off
        # memory: either an array inside the object or (after a refactoring) a pointer member to a heap block
        rs = E.run('s_field', [p, F['memory']], st)
        q = rs[0].val if rs and rs[0].kind == 'ret' else None
        if isinstance(q, Ptr) and q.obj == p.obj:
            self.heap_memory = False; self.off['memory'] = q.off
            plant(p, 0, self.off['memory']); plant(p, self.off['memory'] + 4*self.memwords, self.size)
        else:
            self.heap_memory = True
            plant(p, 0, self.size)
            st, q = E.run1('s_field', [p, F['memory']], st)
            if q.obj != mark.obj: raise Inconclusive("cannot locate the memory member of hexsim::Processor")
            self.off['memory'] = q.off          # offset of the pointer member
        st, q = E.run1('s_field', [p, F['out']], st); self.off['out'] = q.off
        self.io_size = E.run1('io_size', [], st)[1]
        io = st.alloc(self.io_size, 'io'); self.io_off = {}
        plant(io, 0, self.io_size)
        for k, name in enumerate(('in', 'out', 'fileIO', 'connected')):
            st, q = E.run1('io_field', [io, k], st); self.io_off[name] = q.off
        self.fstream_size = E.run1('io_fstream_size', [], st)[1]
    def native(self):
        return build.native('sim.cpp', extra=['-DNATIVE_DRIVER'])
    def engine(self):
        E = Engine(self.M); stubs.install(E)
        if getattr(self, 'heap_memory', False):
            # a heap block of exactly the memory size is the simulator's memory: its contents start as an arbitrary SMT array
            # (what the allocator hands out), so that value-initialisation (or its absence) is visible
            base_new = E.stubs['_Znam']
            def new_(E_, st, a):
                q = base_new(E_, st, a)
                if is_c(a[0]) and a[0] == 4*self.memwords:
                    st.objs[q.obj].regions.append(Region(0, 4, self.memwords, z3.Array(f'heapjunk!{q.obj}', z3.BitVecSort(32), z3.BitVecSort(32))))
                return q
            E.stubs['_Znam'] = new_; E.stubs['_Znwm'] = new_
        # std::to_string only feeds exception messages here: cut to an empty string (message text is outside every claim)
        E.prefix_stubs.append(('_ZNSt7__cxx119to_stringE', lambda E_, st, a: (stubs.Str(E_, st, a[0]).init_local(), None)[1]))
        return E

    def new_proc(self, st, mem_arr, over=None, name='Processor'):
        """raw (unconstructed) Processor object whose memory array is the SMT array mem_arr"""
        p = st.alloc(self.size, name); o = st.objs[p.obj]
        if self.heap_memory:
            m = st.alloc(4*self.memwords, 'memory-block'); st.objs[m.obj].regions.append(Region(0, 4, self.memwords, mem_arr, over))
            o.cells[self.off['memory']] = (8, m)
        else:
            o.regions.append(Region(self.off['memory'], 4, self.memwords, mem_arr, over))
        return p
    def constructed_proc(self, E, st, mem_arr, over=None, maxc=0):
        """Processor built by its real constructor (so that members this harness does not know about hold what the
        constructor gives them), then its memory array replaced by mem_arr"""
        p = self.new_proc(st, z3.K(z3.BitVecSort(32), z3.BitVecVal(0, 32)))
        IN = st.alloc(300, 'istream'); OUT = st.alloc(300, 'ostream')
        E.stubs.setdefault('_ZNSt13basic_fstreamIcSt11char_traitsIcEEC1Ev', stubs.s_nop)
        rs = E.run('s_construct', [p, IN, OUT, maxc], st)
        if len(rs) != 1 or rs[0].kind != 'ret': raise Inconclusive(f"Processor constructor: {rs}")
        st2 = rs[0].st
        if self.heap_memory:
            mp = E.load(st2, p.add(self.off['memory']), 8, True)
            mo = st2.wobj(mp.obj)
            if not mo.regions: mo.regions.append(Region(0, 4, self.memwords, mem_arr))
            r = mo.regions[0]
        else:
            r = st2.wobj(p.obj).regions[0]
        r.arr = mem_arr; r.over = dict(over or {}); r._full = None
        return st2, p
    def setf(self, E, st, p, name, v): E.store(st, p.add(self.off[name]), FW[name], v)
    def getf(self, E, st, p, name): return E.load(st, p.add(self.off[name]), FW[name])
    def mem(self, st, p):
        if self.heap_memory:
            mp = st.objs[p.obj].cells[self.off['memory']][1]
            return st.wobj(mp.obj).regions[0]
        return st.wobj(p.obj).regions[0]

def io_cut_stubs(E, inbyte_fn):
    """cut at the HexSimIO boundary: output/input become events (byte, stream)"""
    def out_stub(E_, st, a): st.events.append(('out', a[1], a[2])); return None
    def in_stub(E_, st, a):
        k = sum(1 for e in st.events if e[0] == 'in'); st.events.append(('in', a[1])); return inbyte_fn(k)
    E.stubs['_ZN3hex8HexSimIO6outputEci'] = out_stub; E.stubs['_ZN3hex8HexSimIO5inputEi'] = in_stub

class Ref:
    """David May's simulator (docs/PDFs/hexb.pdf) transcribed in ref/hexref.c, run by the same engine"""
    def __init__(self):
        self.M = parse_module(build.ir_c('ref/hexref.c'))
    def engine(self): return Engine(self.M)
    def state(self, pc_list, regs, mem_arr, over=None, exit0=0):
        sr = State(); sr.pc = list(pc_list)
        def g(name, size, val=None):
            o = Obj(size, name); o.tok = sr.tok; sr.objs[('g', name)] = o
            if val is not None: o.cells[0] = (size, val)
            return o
        for n in ('pc', 'areg', 'breg', 'oreg'): g(n, 4, regs[n])
        g('inst', 4, 0); g('sp', 4, 0); g('running', 4, 1); g('exitvalue', 4, exit0)
        gm = g('mem', 4*MEMWORDS); gm.regions.append(Region(0, 4, MEMWORDS, mem_arr, over))
        g('pmem', 8, Ptr(('g', 'mem'), 0))
        return sr
    @staticmethod
    def io_stubs(E, inbyte_fn):
        def rout(E_, s_, a): s_.events.append(('out', a[0], a[1])); return None
        def rin(E_, s_, a):
            k = sum(1 for e in s_.events if e[0] == 'in'); s_.events.append(('in', a[0]))
            b = inbyte_fn(k)
            return (sgn(b, 8) & 0xffffffff) if is_c(b) else z3.SignExt(24, b)
        E.stubs['ref_simout'] = rout; E.stubs['ref_simin'] = rin
    @staticmethod
    def reg(st, name): return st.objs[('g', name)].cells[0][1]
    @staticmethod
    def mem(st): return st.objs[('g', 'mem')].regions[0]

def fetch_byte(mem_arr, pc):
    w = z3.Select(mem_arr, z3.LShR(pc, 2))
    return z3.Extract(7, 0, z3.LShR(w, (pc & 3) << 3))

def isa_assumptions(pc, a, b, o, mem_arr, N=MEMWORDS):
    """the quantifier of C02/C03: defined instruction, addresses inside the simulated memory"""
    ins = fetch_byte(mem_arr, pc)
    opc = z3.LShR(z3.ZeroExt(24, ins), 4); opr = o | (z3.ZeroExt(24, ins) & 15)
    Nw = z3.BitVecVal(N, 32); sp = z3.Select(mem_arr, z3.BitVecVal(1, 32))
    return [z3.ULT(pc, 4*N), opc != 12,
            z3.Implies(z3.Or(opc == 0, opc == 1, opc == 2), z3.ULT(opr, Nw)),
            z3.Implies(opc == 6, z3.ULT(a + opr, Nw)), z3.Implies(z3.Or(opc == 7, opc == 8), z3.ULT(b + opr, Nw)),
            z3.Implies(opc == 13, z3.ULE(opr, 3)),
            z3.Implies(z3.And(opc == 13, opr == 3), z3.And(z3.ULE(a, 2), z3.ULT(sp, Nw - 3)))], ins, opc, opr
