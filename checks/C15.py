#!/usr/bin/env python3
# C15: trace and debug symbols report what is actually executing (DESIGN.md section 4, C15).
from layrun import *
from simlib import *
import loader

ARCH_MNEMONICS = {0: 'LDAM', 1: 'LDBM', 2: 'STAM', 3: 'LDAC', 4: 'LDBC', 5: 'LDAP', 6: 'LDAI', 7: 'LDBI', 8: 'STAI',
                  9: 'BR', 10: 'BRZ', 11: 'BRN', 13: 'OPR', 14: 'PFIX', 15: 'NFIX'}      # hexb.pdf instruction table

def trace_call_boundary(ck, sim):
    """in the C02 step harness with tracing on: trace(instr, instrEnum) receives the byte fetched at the old pc, its
    high nibble; lastPC is the old pc; cycles is the number of instructions executed before"""
    pc, a, b, o = [z3.BitVec(n, 32) for n in ('pc', 'areg', 'breg', 'oreg')]
    mem = z3.Array('mem', z3.BitVecSort(32), z3.BitVecSort(32)); cyc = z3.BitVec('cyc', 64); inb = z3.BitVec('inbyte', 8)
    assume, ins, opc, opr = isa_assumptions(pc, a, b, o, mem)
    assume += [z3.UGE(cyc, 1), z3.ULT(cyc, 1 << 40)]
    E = sim.engine(); io_cut_stubs(E, lambda k: inb)
    state_at_trace = {}
    def trace_stub(E_, st, a_):
        p = a_[0]
        st.events.append(('trace', a_[1], a_[2], sim.getf(E_, st, p, 'lastPC'), sim.getf(E_, st, p, 'cycles'))); return None
    E.stubs['_ZN6hexsim9Processor5traceEjN3hex5InstrE'] = trace_stub
    E.stubs['_ZN6hexsim9Processor12traceSyscallEv'] = stubs.s_nop
    st = State(); st.pc = list(assume); p = sim.new_proc(st, mem)
    for n, v in (('pc', pc), ('areg', a), ('breg', b), ('oreg', o), ('truncateInputs', 1), ('running', 1), ('tracing', 1), ('exitCode', 0), ('cycles', cyc), ('maxCycles', cyc)):
        sim.setf(E, st, p, n, v)
    for r in E.run('s_run', [p], st):
        if r.kind != 'ret':
            ck.violation(f"trace-boundary:{r.kind}", f"step with tracing on ends in {r.kind}: {r.val}", None); continue
        tr = [e for e in r.st.events if e[0] == 'trace']
        if len(tr) != 1:
            ck.obligation(False); ck.violation("trace-boundary:count", f"trace() called {len(tr)} times for one instruction", None); continue
        _, ti, te, tl, tc = tr[0]
        claim = z3.And(bv(ti, 32) == z3.ZeroExt(24, ins), bv(te, 32) == z3.ZeroExt(24, ins) >> 4, bv(tl, 32) == pc, bv(tc, 64) == cyc)
        ok, m = ck.prove(E, r.st, claim, "trace(instr, instrEnum) receives the executed byte, its opcode, lastPC == address, cycles == count before")
        if not ok:
            ck.violation("trace-boundary:args", f"trace() arguments wrong for pc={model_int(m, pc)} instr={model_int(m, ins):#x}: instr={m.eval(bv(ti, 32))} enum={m.eval(bv(te, 32))} lastPC={m.eval(bv(tl, 32))} cycles={m.eval(bv(tc, 64))}", None)
    ck.engine(E, 'Processor::run with tracing (trace cut at its call boundary)')
    # mnemonic strings
    E = sim.engine()
    for k in range(16):
        st, q = E.run1('s_instrstr', [k])
        got = E.read_cstr(st, q).decode()
        want = ARCH_MNEMONICS.get(k)
        ck.obligation(want is None or got == want)
        if want is not None and got != want: ck.violation(f"mnemonic:{k}", f"instrEnumToStr({k}) == {got!r}, architecture says {want!r}", None)
    ck.engine(E, 'hex::instrEnumToStr')

def symbol_lookup(ck, sim_inl, sim_cut):
    """load()'s debug-section reader, lookupSymbol and the symbol+offset computed in trace(), for tables of 1..3 symbols with
    symbolic ascending offsets and a symbolic lastPC"""
    names = [b'f', b'mn', b'xyz']
    for nsym in (1, 2, 3):
        offs = [z3.BitVec(f'off{i}', 32) for i in range(nsym)]; lastpc = z3.BitVec('lastPC', 32); prevpc = z3.BitVec('prevPC', 32); cyc = z3.BitVec('cyc', 64); ins = z3.BitVec('instr', 32)
        dbg = list(struct.pack('<I', nsym)) + [x for nm in names[:nsym] for x in list(nm) + [0]] + list(struct.pack('<I', nsym))
        for i in range(nsym):
            dbg += list(struct.pack('<I', i)) + [z3.Extract(8*k+7, 8*k, offs[i]) for k in range(4)]
        data = list(struct.pack('<I', 1)) + [0xD3, 0, 0, 0] + dbg
        E1 = sim_inl.engine(); loader.file_stubs(E1, lambda name: data)
        st = State(); st.pc = [z3.ULT(offs[i], offs[i+1]) for i in range(nsym-1)] + [z3.ULT(ins, 256)]
        mem = z3.K(z3.BitVecSort(32), z3.BitVecVal(0, 32))
        # the object comes from its real constructor, so members this harness does not know (a lookup cache, say) hold what a fresh simulator holds
        st, p = sim_inl.constructed_proc(E1, st, mem)
        rs = E1.run('s_load', [p, E1.alloc_cstr(st, 'image.bin')], st)
        ck.engine(E1, 'Processor::load (debug section)')
        for r in rs:
            if r.kind != 'ret':
                ck.violation(f"load-debug:{nsym}:{r.kind}", f"load() of an image with {nsym} symbols ends in {r.kind}: {r.val}", None); continue
            E2 = sim_inl.engine(); s2 = r.st
            def feed(E_, st_, a_, kind):
                if kind == 'u32': v = E_.load(st_, a_[1], 4)
                elif kind == 'u64': v = E_.load(st_, a_[1], 8)
                elif kind == 'cstr':
                    q = E_.load(st_, a_[1], 8, True); v = E_.read_cstr(st_, q) if isinstance(q, Ptr) and q.obj != 0 else None
                else: v = ('string',)
                st_.events.append(('feed', v)); return a_[0]
            pre = '_ZN5boost12basic_formatIcSt11char_traitsIcESaIcEErm'
            E2.prefix_stubs = [(pre + 'IjE', lambda E_, s_, a_: feed(E_, s_, a_, 'u32')), (pre + 'IKjE', lambda E_, s_, a_: feed(E_, s_, a_, 'u32')),
                               (pre + 'ImE', lambda E_, s_, a_: feed(E_, s_, a_, 'u64')), (pre + 'IKmE', lambda E_, s_, a_: feed(E_, s_, a_, 'u64')),
                               (pre + 'IPKc', lambda E_, s_, a_: feed(E_, s_, a_, 'cstr')), (pre + 'IKPKc', lambda E_, s_, a_: feed(E_, s_, a_, 'cstr')),
                               (pre, lambda E_, s_, a_: feed(E_, s_, a_, 'other')),
                               ('_ZN5boost', lambda E_, s_, a_: a_[0] if a_ else None), ('_ZNK5boost', lambda E_, s_, a_: a_[0] if a_ else None),
                               ('_ZNSolsE', lambda E_, s_, a_: a_[0]), ('_ZStls', lambda E_, s_, a_: a_[0])]
            E2.stubs['_ZNK5boost12basic_formatIcSt11char_traitsIcESaIcEE3strB5cxx11Ev'] = lambda E_, s_, a_: (stubs.Str(E_, s_, a_[0]).init_local(), a_[0])[1]
            E2.stubs['_ZNSt7__cxx1112basic_stringIcSt11char_traitsIcESaIcEEaSEOS4_'] = lambda E_, s_, a_: a_[0]
            sim_inl.setf(E2, s2, p, 'cycles', cyc)
            for n, v in (('pc', 0), ('areg', 0), ('breg', 0), ('oreg', 0)): sim_inl.setf(E2, s2, p, n, v)
            OUT = s2.alloc(300, 'ostream'); E2.store(s2, p.add(sim_inl.off['out']), 8, OUT)
            # an earlier traced instruction at an arbitrary address (history): whatever trace() remembers must not change the next line
            sim_inl.setf(E2, s2, p, 'lastPC', prevpc)
            firsts = []
            for r1 in E2.run('s_trace', [p, ins, 14], s2):
                if r1.kind != 'ret':
                    ok_, m = E2.sat(r1.st)
                    ck.violation(f"trace-symbol:{nsym}:{r1.kind}", f"trace() with {nsym} symbols ends in {r1.kind}: {r1.val} (lastPC={model_int(m, prevpc)} offsets={[model_int(m, x) for x in offs]})", None); continue
                r1.st.events = [e for e in r1.st.events if e[0] != 'feed']; firsts.append(r1.st)
            seconds = []
            for s3 in firsts:
                sim_inl.setf(E2, s3, p, 'lastPC', lastpc); seconds += E2.run('s_trace', [p, ins, 14], s3)
            for r2 in seconds:       # PFIX: the part of trace() after the prefix reads no memory
                if r2.kind != 'ret':
                    ok_, m = E2.sat(r2.st)
                    ck.violation(f"trace-symbol:{nsym}:{r2.kind}", f"trace() with {nsym} symbols ends in {r2.kind}: {r2.val} (lastPC={model_int(m, lastpc)} offsets={[model_int(m, x) for x in offs]})", None); continue
                feeds = [e[1] for e in r2.st.events if e[0] == 'feed']
                # expected: symbol with the greatest offset <= lastPC
                below = z3.ULT(lastpc, offs[0])
                claims = []
                if feeds and isinstance(feeds[0], bytes) and len(feeds) > 1 and (is_c(feeds[1]) or (isinstance(feeds[1], z3.BitVecRef) and feeds[1].size() == 32)):
                    k = names.index(feeds[0]) if feeds[0] in names[:nsym] else None
                    if k is None: claims.append(z3.BoolVal(False))
                    else:
                        claims.append(z3.UGE(lastpc, offs[k]))
                        if k + 1 < nsym: claims.append(z3.ULT(lastpc, offs[k+1]))
                        claims.append(bv(feeds[1], 32) == lastpc - offs[k])
                        rest = feeds[2:]
                else:
                    claims.append(below); rest = feeds
                # main format: count, address, symbol text, mnemonic, operand
                num = lambda x: is_c(x) or isinstance(x, z3.BitVecRef)
                def wid(x, w): return is_c(x) or (isinstance(x, z3.BitVecRef) and x.size() == w)
                if len(rest) >= 5 and wid(rest[0], 64) and wid(rest[1], 32) and wid(rest[4], 32) and isinstance(rest[3], bytes):
                    claims += [bv(rest[0], 64) == cyc, bv(rest[1], 32) == lastpc, z3.BoolVal(rest[3] == b'PFIX'), bv(rest[4], 32) == ins & 0xF]
                else: claims.append(z3.BoolVal(False))        # not the 'count address symbol mnemonic operand' line of a binary with symbols
                ok, m = ck.prove(E2, r2.st, z3.And(claims), f"trace prefix with {nsym} symbols: count, address, symbol+offset, mnemonic, operand")
                if not ok:
                    ck.violation(f"trace-symbol:{nsym}", f"trace() reports {feeds[:2]} for lastPC={model_int(m, lastpc)} (previous traced address {model_int(m, prevpc)}) with symbol offsets {[model_int(m, x) for x in offs]}", None)
            ck.engine(E2, 'Processor::trace + lookupSymbol')
    ck.sample({'obligation': 'symbol lookup', 'symbols': 3, 'offsets': 'symbolic ascending', 'lastPC': 'symbolic'})

def tv_call_sequences(ck):
    """along compiled programs: the sequence of 'lastPC equals a symbol's offset' events equals the reference interpreter's
    procedure-entry sequence (skeleton programs in the quick tier, the whole generator set in the thorough tier)"""
    import tvrun
    jobs = tvrun.jobs_for(ck, include_shipped=False)
    if ck.tier == 'quick': jobs = [j for j in jobs if j[0].startswith('skeleton:')]
    results = tvrun.run_jobs(jobs)
    n = 0
    for r in results:
        if r['status'].startswith('engine-error'): ck.fail_inconclusive(f"{r['name']}: {r['status']}"); continue
        ck.cov['paths'] += r['bin_paths']; ck.cov['queries'] += r['queries']; ck.cov['solver_s'] += r['solver_s']; ck.cov['ir_steps'] += r['steps']
        ck.obligation(not any(f[0] == 'calls' for f in r['findings']), max(1, r['bin_paths'])); n += 1
        for cat, what, vals, _ in r['findings']:
            if cat == 'calls':
                key = f"calls:{r['name']}"
                ck.violation(key, f"{what} [{r['name']}]", ck.replay_file(key, {'source': r['src'], 'finding': what}), True); break
    ck.sample({'obligation': 'procedure entries in the trace == call sequence of the source', 'programs': n})

def main():
    ck = Check('C15', 'translation_validation')
    L, shapes, results = run_family(ck, 'C15')
    sim_cut = Sim(noinline=True); sim_inl = Sim(noinline=False)
    trace_call_boundary(ck, sim_cut)
    symbol_lookup(ck, sim_inl, sim_cut)
    tv_call_sequences(ck)
    ck.assume("(L) symbol table written by emitDebugInfo is checked on every C05 shape containing FUNC/PROC: each listed once, ascending, with the byte offset at which the following directive's encoding starts",
              "(S) debug-section reader + lookupSymbol + trace(): <= 3 symbols, names <= 3 characters, offsets and lastPC 32-bit symbolic; boost::format calls are cut: the values fed to operator% are checked, the text rendering is outside",
              "(S) at the call boundary of trace() in the step harness: instr == fetched byte, instrEnum == its high nibble, lastPC == old pc, cycles == instructions executed before; instrEnumToStr against the hexb.pdf mnemonic table",
              "sequence of procedure entries along whole compiled programs is checked with the translation-validation runs of C01 (reported there)")
    ck.cov['programs'] = ck.cov.get('shapes', 0); ck.cov['disagreements_checked'] = ck.cov['obligations']
    ck.crosscheck()
    ck.finish("Symbol tables emitted for every shape of the C05 set are compared with the independently decoded layout; the loader's debug-section reader, lookupSymbol and the "
              "symbol+offset computation of trace() are executed symbolically for tables with symbolic ascending offsets and symbolic lastPC and z3 proves the reported symbol is the one "
              "whose code contains lastPC with the right offset; the arguments trace() receives per executed instruction are proved equal to the executed byte, address and count.")

if __name__ == '__main__':
    from lib.report import guarded
    guarded(main)
