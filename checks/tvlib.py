# TV family: translation validation of xcmp-compiled binaries (C01, C07, C08, C15-TV, C17-xcmp).
# The binary produced by the native xcmp (built from the working tree) runs on hexsim's Processor::run under the engine
# with symbolic inputs / designated globals, and is compared per path with the X reference semantics (ref/xref.py).
from simlib import *
import tempfile, shutil, re, time, multiprocessing
sys.path.insert(0, os.path.join(build.VERIF, 'ref'))
import xref

MEMI = {0, 1, 6, 7}      # opcodes with one data load: LDAM LDBM LDAI LDBI
MEMS = {2, 8}            # one data store: STAM STAI

class Compiled:
    pass

def compile_x(src, workdir):
    """native xcmp: binary + -S listing. Returns Compiled or an error string"""
    xc = build.tool('xcmp')
    p = os.path.join(workdir, 'p.x'); open(p, 'w').write(src)
    out = os.path.join(workdir, 'a.out')
    if os.path.exists(out): os.remove(out)
    try:
        r = subprocess.run([xc, 'p.x'], cwd=workdir, capture_output=True, text=True, timeout=20)
    except subprocess.TimeoutExpired:
        return 'compile-timeout'
    if r.returncode != 0 or not os.path.exists(out):
        return f"compile-fail rc={r.returncode} {(r.stderr or r.stdout)[:120]}"
    b = open(out, 'rb').read()
    c = Compiled(); n = struct.unpack('<I', b[:4])[0]
    c.nwords = n; c.words = list(struct.unpack('<%dI' % n, b[4:4+4*n])); c.raw = b
    c.debug = b[4+4*n:]
    r2 = subprocess.run([xc, '-S', 'p.x'], cwd=workdir, capture_output=True, text=True, timeout=20)
    c.listing = r2.stdout
    c.labels = {}; c.data_words = set(); c.entries = []
    for line in c.listing.split('\n'):
        m = re.match(r'(?:0x)?([0-9a-f]{6,8}) (.{20}) \((\d+) bytes\)', line)
        if not m: continue
        off = int(m.group(1), 16); text = m.group(2).strip(); size = int(m.group(3))
        c.entries.append((off, text, size))
        if size == 0 and not text.startswith('PADDING'): c.labels[text.replace('FUNC ', '').replace('PROC ', '')] = off
        if text.startswith('DATA'): c.data_words.add(off // 4)
    c.symbols = parse_debug_bytes(c.debug)
    return c

def parse_debug_bytes(bs):
    try:
        n = struct.unpack_from('<I', bs, 0)[0]; p = 4; names = []
        for _ in range(n):
            e = bs.index(0, p); names.append(bs[p:e].decode()); p = e + 1
        m = struct.unpack_from('<I', bs, p)[0]; p += 4; syms = []
        for _ in range(m):
            idx, off = struct.unpack_from('<II', bs, p); p += 8; syms.append((names[idx], off))
        return syms
    except Exception:
        return None

def listing_vs_image(c):
    """C17 for xcmp -S: decode the image at the listed offsets (concrete comparison)"""
    bad = []
    img = b''.join(struct.pack('<I', w) for w in c.words)
    pos_expected = None
    for off, text, size in c.entries:
        if text.startswith('PADDING') or size == 0: continue
        if text.startswith('DATA'):
            v = int(text.split()[1]) & 0xffffffff
            if off % 4 or off + 4 > len(img) or struct.unpack_from('<I', img, off)[0] != v: bad.append(f"DATA at {off:#x}: image holds {img[off:off+4].hex()}")
            continue
        opc, oreg, ln = prefix_fold_concrete(list(img[off:off+size+1]))
        m = re.match(r'(\w+) (?:(-?\d+)|\S+ \((-?\d+)\)|(\w+))$', text)
        if not m: continue
        if ln != size: bad.append(f"{text} at {off:#x}: listed {size} bytes, decodes to {ln}")
        val = m.group(2) or m.group(3)
        if val is not None and (int(val) & 0xffffffff) != oreg: bad.append(f"{text} at {off:#x}: encoded operand {oreg:#x}")
    return bad

class TV:
    def __init__(self):
        self.sim = Sim(noinline=True)
        self.workdir = tempfile.mkdtemp(dir=os.path.join(build.VERIF, 'build'))
    def close(self): shutil.rmtree(self.workdir, ignore_errors=True)

    def run_binary(self, c, symw, inputs, base_pc, max_instr=2000, max_paths=64, monitor=True, deadline=None):
        """Processor::run on the image; symw: {word index: z3 term}; inputs: list of 8-bit terms.
        Returns (engine, results) where each result has .st.x['mon'] (monitor findings) and .st.x['trace'] (pcs)"""
        sim = self.sim; E = sim.engine()
        E.max_steps = 120 * max_instr + 20000; E.max_paths = max_paths * 4; E.concretize_stores = True; E.deadline = deadline; E.solver.set('timeout', 30000)
        st = State(); st.pc = list(base_pc)
        over = {i: w for i, w in enumerate(c.words)}
        over.update(symw)
        arr = z3.K(z3.BitVecSort(32), z3.BitVecVal(0, 32))
        p = sim.new_proc(st, arr, over)
        for n, v in (('pc', 0), ('areg', 0), ('breg', 0), ('oreg', 0), ('instr', 0), ('truncateInputs', 1), ('running', 1), ('tracing', 1), ('exitCode', 0),
                     ('lastPC', 0), ('cycles', 0), ('maxCycles', 0)):
            sim.setf(E, st, p, n, v)
        st.x['trace'] = (); st.x['mon'] = (); st.x['dexp'] = 0; st.x['fetched'] = frozenset(); st.x['stores'] = ()
        sp0 = c.words[1] if len(c.words) > 1 else 0
        exit_addr = c.labels.get('_exit')
        def trace_stub(E_, s_, a):
            pcv = sim.getf(E_, s_, a[0], 'lastPC'); opc = a[2]
            if not is_c(pcv) or not is_c(opc): raise Inconclusive("symbolic program counter in a translation-validation run")
            s_.x['trace'] = s_.x['trace'] + (pcv,)
            s_.x['fetched'] = s_.x['fetched'] | {pcv >> 2}
            s_.x['dexp'] = 1 if opc in MEMI or opc in MEMS else 0
            if len(s_.x['trace']) > max_instr: raise Budget()
            if monitor and exit_addr is not None and pcv == exit_addr:
                spn = sim.mem(s_, a[0]).get(1)
                ok_ = (spn == sp0) if is_c(spn) else not E_.sat(s_, spn != sp0)[0]
                if not ok_: s_.x['mon'] = s_.x['mon'] + (('sp-unbalanced', f"main returned with stack pointer {spn} != load-time value {sp0}"),)
            return None
        E.stubs['_ZN6hexsim9Processor5traceEjN3hex5InstrE'] = trace_stub
        E.stubs['_ZN6hexsim9Processor12traceSyscallEv'] = stubs.s_nop
        def in_fn(k): return inputs[k] if k < len(inputs) else 255
        io_cut_stubs(E, in_fn)
        def hook(s_, kind, r, idx, nbytes, val=None):
            fr = s_.frames[-1].fn.name if s_.frames else ''
            insys = 'syscall' in fr
            if kind == 'load':
                if not insys and s_.x['dexp'] == 0: return          # instruction fetch
                if not insys: s_.x['dexp'] = 0
                return
            # store
            if not insys: s_.x['dexp'] = 0
            s_.x['stores'] = s_.x['stores'] + ((idx, val),)
            if is_c(idx):
                if idx in s_.x['fetched']: s_.x['mon'] = s_.x['mon'] + (('store-to-code', f"store to word {idx}, from which an instruction was fetched"),)
                if idx < c.nwords and idx not in c.data_words: s_.x['mon'] = s_.x['mon'] + (('store-to-code', f"store to word {idx} inside the image, not a DATA word"),)
                if idx == 1:
                    okv = (val <= sp0) if is_c(val) else not E.sat(s_, z3.UGT(bv(val, 32), sp0))[0]
                    if not okv: s_.x['mon'] = s_.x['mon'] + (('sp-above', f"stack pointer set to {val}, above its load-time value {sp0}"),)
            else:
                bad = z3.Or([idx == w for w in s_.x['fetched']] + [z3.And(z3.ULT(idx, c.nwords), z3.And([idx != d for d in c.data_words]))])
                sat_, m = E.sat(s_, bad)
                if sat_: s_.x['mon'] = s_.x['mon'] + (('store-to-code', f"store with symbolic address can hit code (e.g. word {m.eval(idx)})"),)
        if monitor: E.region_hook = hook
        rs = E.run('s_run', [p], st)
        # stores that hit words fetched later
        for r in rs:
            if r.kind == 'ret' and monitor:
                late = [i for i, v in r.st.x['stores'] if is_c(i) and i in r.st.x['fetched']]
                if late and not any(k == 'store-to-code' for k, _ in r.st.x['mon']):
                    r.st.x['mon'] = r.st.x['mon'] + (('store-to-code', f"store to word {late[0]} from which an instruction is fetched later"),)
        return E, rs

def event_diffs(bev, rev):
    """list of z3 disequalities between two event lists of equal shape, or None when the shapes differ"""
    if len(bev) != len(rev) or any(x[0] != y[0] for x, y in zip(bev, rev)): return None
    diffs = []
    for x, y in zip(bev, rev):
        for u, v in zip(x[1:], y[1:]):
            w = 8 if x[0] == 'out' and u is x[1] else 32
            if x[0] == 'out' and u is x[1]:
                uu = bv(u, 8) if (is_c(u) or u.size() == 8) else z3.Extract(7, 0, u)
                vv = bv(v & 255, 8) if is_c(v) else (v if v.size() == 8 else z3.Extract(7, 0, v))
                diffs.append(uu != vv)
            else: diffs.append(bv(u, 32) != bv(v, 32))
    return diffs

def validate(tv, src, nsym=2, nin=1, max_instr=2000, max_paths=64, want_calls=False, deadline=None):
    """translation validation of one program. Returns dict(status, paths, findings, excluded, cut, ...)"""
    t0 = time.time()
    out = dict(src=src, findings=[], ref_paths=0, bin_paths=0, excluded=0, cut=0, queries=0, solver_s=0.0, steps=0, obligations=0, discharged=0, monitor=[])
    c = compile_x(src, tv.workdir)
    if isinstance(c, str):
        out['status'] = c; return out
    out['compiled'] = c
    syms = {f's{i}': z3.BitVec(f's{i}', 32) for i in range(nsym)}
    inputs = [z3.BitVec(f'in{i}', 8) for i in range(nin)]
    # designated globals s0.. are declared first, so they are the first DATA words after the stack-pointer word: check
    symw = {}
    for i in range(nsym):
        lab = f'_lab{i}' if f'_lab{i}' in c.labels else f'lab{i}'
        if c.labels.get(lab) != 8 + 4*i or (2 + i) not in c.data_words or c.words[2+i] != 0:
            out['status'] = 'layout-assumption-failed'; return out
        symw[2 + i] = syms[f's{i}']
    try:
        refs = xref.explore(src, syms, inputs, max_paths=max_paths, deadline=deadline)
    except (xref.XSyntax, xref.Undefined) as e:
        out['status'] = 'reference-rejects: ' + str(e); return out
    out['status'] = 'validated'
    for rp in refs:
        out['ref_paths'] += 1
        if rp['events'] is None:
            if rp['status'].startswith('budget'): out['cut'] += 1
            else: out['excluded'] += 1
            continue
        if deadline is not None and time.time() > deadline: out['cut'] += 1; continue
        E, rs = tv.run_binary(c, symw, inputs, rp['pc'], max_instr, max_paths, deadline=deadline)
        for r in rs:
            out['bin_paths'] += 1
            if r.kind == 'budget': out['cut'] += 1; continue
            if r.kind != 'ret':
                ok_, m = E.sat(r.st)
                cat = 'memory' if (r.kind == 'violation' and r.val.kind in ('out-of-bounds',)) else 'behaviour'
                out['findings'].append((cat, f"binary ends in {r.kind}: {r.val}", model_vals(m, syms, inputs), None)); continue
            bev = [e for e in r.st.events if e[0] in ('out', 'in')] + [('exit', r.val)]
            # the binary must have consumed exactly the reference's inputs: 'in' events carry the stream
            diffs = event_diffs(bev, rp['events'])
            out['obligations'] += 1
            if diffs is None:
                ok_, m = E.sat(r.st)
                if ok_: out['findings'].append(('behaviour', f"event sequence differs: binary {fmt_events(bev, m)} reference {fmt_events(rp['events'], m)}", model_vals(m, syms, inputs), None))
                else: out['discharged'] += 1
            else:
                claim = z3.Or(diffs) if diffs else z3.BoolVal(False)
                sat_, m = E.sat(r.st, claim)
                if sat_: out['findings'].append(('behaviour', f"binary {fmt_events(bev, m)} reference {fmt_events(rp['events'], m)}", model_vals(m, syms, inputs), None))
                else:
                    out['discharged'] += 1
                    if 'smt' not in out and diffs:
                        from lib.report import to_smt2
                        out['smt'] = ('unsat', to_smt2(list(r.st.pc) + [claim]), 'binary events == reference events')
            for kind, what in r.st.x['mon']:
                ok_, m = E.sat(r.st)
                out['monitor'].append((kind, what, model_vals(m, syms, inputs)))
            if want_calls and c.symbols is not None:
                entry = {off: nm for nm, off in c.symbols}
                seq = [entry[pc] for pc in r.st.x['trace'] if pc in entry]
                # where X leaves the order of sibling operands open the order of (side-effect free) calls may differ: compare as multisets then
                same = seq == rp['calls'] or (order_open_calls(src) and sorted(seq) == sorted(rp['calls']) and seq[:1] == rp['calls'][:1])
                if not same: out['findings'].append(('calls', f"procedure entries in the trace {seq[:12]} != call sequence of the source {rp['calls'][:12]}", model_vals(None, syms, inputs), None))
        out['queries'] += E.nq; out['solver_s'] += E.tq; out['steps'] += E.steps
    out['wall'] = time.time() - t0
    return out

_ooc = {}
def order_open_calls(src):
    """does some operator / actual list / element assignment of the program have two sibling operands that both contain calls"""
    if src not in _ooc:
        gl, procs, order = xref.parse(src)
        found = [False]
        def walk(n):
            if not isinstance(n, tuple): return
            sibs = None
            if n[0] == 'bin' and n[1] not in ('and', 'or'): sibs = [n[2], n[3]]
            elif n[0] in ('call', 'syscall'): sibs = n[2]
            elif n[0] == 'ass' and n[1][0] == 'sub': sibs = [n[1][2], n[2]]
            if sibs and sum(1 for x in sibs if xref.has_call(x)) > 1: found[0] = True
            for c_ in n[1:]:
                if isinstance(c_, tuple): walk(c_)
                elif isinstance(c_, list):
                    for x in c_: walk(x)
        for p in procs.values(): walk(p['body'])
        _ooc[src] = found[0]
    return _ooc[src]

def model_vals(m, syms, inputs):
    if m is None: return {}
    d = {k: model_int(m, v) for k, v in syms.items()}
    d.update({f'in{i}': model_int(m, v) for i, v in enumerate(inputs)})
    return d

def fmt_events(ev, m):
    out = []
    for e in ev:
        vals = []
        for x in e[1:]:
            if is_c(x): vals.append(x)
            elif m is not None: vals.append(m.eval(x, model_completion=True).as_long())
            else: vals.append(str(x)[:20])
        out.append((e[0],) + tuple(vals))
    return out

def replay_native(tv, src, vals, nsym, nin, max_cycles=200000):
    """run the real xcmp and the real hexsim::Processor (native driver, real loader) on a concrete instance.
    The designated globals are realised by assignments of literals at the start of main (their materialisation is
    decided separately in C07/C04). Returns dict(exit, out, running) or a string describing why it could not run."""
    import tempfile, shutil
    d = tempfile.mkdtemp(dir=os.path.join(build.VERIF, 'build'))
    try:
        src2 = src
        if nsym:
            m = re.search(r'proc main\(\) is((?:\s*(?:var|val)[^;]*;)*)', src2)
            if not m: return 'no main to instrument'
            assigns = '; '.join(f"s{i} := {lit(vals.get(f's{i}', 0))}" for i in range(nsym))
            body = src2[m.end():].strip()
            # main is the last procedure in generated programs: its body runs to the end of the text
            src2 = src2[:m.end()] + ' { ' + assigns + '; ' + body + ' }\n'
        open(os.path.join(d, 'p.x'), 'w').write(src2)
        xc = build.tool('xcmp')
        r = subprocess.run([xc, 'p.x'], cwd=d, capture_output=True, timeout=20)
        if r.returncode != 0 or not os.path.exists(os.path.join(d, 'a.out')): return f'compile-fail rc={r.returncode}'
        inp = ' '.join(str(vals.get(f'in{i}', 0)) for i in range(nin))
        out, _ = run_native(tv.sim.native(), f"runfile {os.path.join(d, 'a.out')} {max_cycles} {inp}\n", timeout=60)
        t = out.split()
        if len(t) < 3: return 'native run failed: ' + out[:100]
        oi = t.index('out'); end = t.index('exception') if 'exception' in t else len(t)
        return dict(exit=int(t[0]), running=int(t[1]), out=bytes(int(x) for x in t[oi+1:end]), exception=' '.join(t[end+1:]), src=src2)
    except subprocess.TimeoutExpired:
        return 'timeout'
    finally:
        shutil.rmtree(d, ignore_errors=True)

def lit(v):
    v &= 0xffffffff
    return str(v) if v < (1 << 31) else f"(0 - {(1 << 32) - v})" if v != (1 << 31) else "((0 - 2147483647) - 1)"

def reference_concrete(src, vals, nsym, nin):
    """reference semantics on concrete values -> (stdout bytes, exit value) or None when undefined"""
    syms = {f's{i}': vals.get(f's{i}', 0) & 0xffffffff for i in range(nsym)}
    inputs = [vals.get(f'in{i}', 0) & 0xff for i in range(nin)]
    rs = xref.explore(src, syms, inputs, max_paths=4)
    if len(rs) != 1 or rs[0]['events'] is None: return None
    out = bytes(e[1] & 255 for e in rs[0]['events'] if e[0] == 'out' and isinstance(e[2], int) and 0 <= xref.sg(e[2]) < 256)
    return dict(out=out, exit=rs[0]['events'][-1][1])

def confirm(tv, src, vals, nsym, nin):
    """does the concrete instance misbehave on the real tools? -> (confirmed, detail)"""
    ref = reference_concrete(src, vals, nsym, nin)
    nat = replay_native(tv, src, vals, nsym, nin)
    detail = {'values': vals, 'reference': ref and {'exit': ref['exit'], 'out': ref['out'].hex()}, 'native': nat if isinstance(nat, str) else {'exit': nat['exit'], 'out': nat['out'].hex(), 'exception': nat['exception'], 'source': nat['src']}}
    if ref is None: return False, detail            # the concrete instance is outside the defined subset: cannot confirm
    if isinstance(nat, str): return nat.startswith('compile-fail'), detail
    bad = nat['exception'] != '' or nat['running'] != 0 or nat['exit'] != ref['exit'] or nat['out'] != ref['out']
    return bad, detail
