# R family: Verilator-generated C++ for the repository's RTL, compiled to IR and run by the engine.
from common import *
import re, glob

VL_INC = '/usr/share/verilator/include'
PORTS = ['i_clk', 'i_rst', 'i_f_data', 'i_d_data', 'o_f_valid', 'o_f_addr', 'o_d_valid', 'o_d_we', 'o_d_addr', 'o_d_data', 'o_syscall_valid', 'o_syscall']
REGS = ['pc_q', 'areg_q', 'breg_q', 'oreg_q']

def _members(hdr):
    """member name -> byte width, from a Verilator generated class header"""
    out = {}
    body = open(hdr).read()
    for m in re.finditer(r'VL_(IN|OUT|INOUT)(8|16|64|W)?\((\w+),(\d+),(\d+)', body):
        out[m.group(3)] = {'8': 1, '16': 2, None: 4, '64': 8}.get(m.group(2), 4)
    for m in re.finditer(r'\b(CData|SData|IData|QData)/\*[^*]*\*/\s+(\w+);', body):
        out[m.group(2)] = {'CData': 1, 'SData': 2, 'IData': 4, 'QData': 8}[m.group(1)]
    return out

class ProcModel:
    """stand-alone `processor` module verilated from the given sources"""
    def __init__(self, tag, sources):
        self.tag = tag; pre = self.pre = 'V' + tag
        d = self.dir = build.verilate('processor', sources, pre, extra=['-Wno-fatal'])
        root = _members(os.path.join(d, f'{pre}___024root.h'))
        sub = _members(os.path.join(d, f'{pre}_processor.h')) if os.path.exists(os.path.join(d, f'{pre}_processor.h')) else {}
        acc = []; self.width = {}
        def find(name):
            for cand, where, tbl in [(name, 'TOP', root)] + [(k, 'TOP', root) for k in root if k.endswith('__DOT__' + name)] + \
                                    [(k, 'TOP__processor', sub) for k in sub if k == name or k == '__PVT__' + name]:
                if cand in tbl: return f"s->{where}.{cand}", tbl[cand]
            raise Inconclusive(f"{tag}: signal {name} not found in the Verilator output")
        names = PORTS + REGS + ['__Vtrigrprev__TOP__i_clk', '__Vtrigrprev__TOP__i_rst']
        for k, n in enumerate(names):
            expr, w = find(n); acc.append(f"    case {k}: return &{expr};"); self.width[n] = w
        self.names = names
        cpps = sorted(glob.glob(os.path.join(d, f'{pre}_*__DepSet_*.cpp')))
        wire = f"*({pre}__Syms**)&s->TOP.vlSymsp = s;"
        if sub: wire += f" *({pre}__Syms**)&s->TOP__processor.vlSymsp = s; s->TOP.processor = &s->TOP__processor;"
        src = '#include "verilated.h"\n' + f'#include "{pre}__Syms.h"\n' + ''.join(f'#include "{c}"\n' for c in cpps) + f'''
void {pre}___024root___eval({pre}___024root* vlSelf);
void {pre}___024root___eval_static({pre}___024root* vlSelf);
void {pre}___024root___eval_initial({pre}___024root* vlSelf);
void {pre}___024root___eval_settle({pre}___024root* vlSelf);
extern "C" {{
unsigned long m_size() {{ return sizeof({pre}__Syms); }}
void m_wire({pre}__Syms* s) {{ {wire} }}
void m_init({pre}__Syms* s) {{ {pre}___024root___eval_static(&s->TOP); {pre}___024root___eval_initial(&s->TOP); {pre}___024root___eval_settle(&s->TOP); }}
void m_eval({pre}__Syms* s) {{ {pre}___024root___eval(&s->TOP); }}
void* m_f({pre}__Syms* s, int k) {{
  switch (k) {{
{chr(10).join(acc)}
  }}
  return 0;
}}
}}
'''
        wrap = os.path.join(d, 'wrap.cpp'); open(wrap, 'w').write(src)
        self.ll = build.ir(wrap, includes=[d, VL_INC, os.path.join(VL_INC, 'vltstd')])
        self.M = parse_module(self.ll)

    def engine(self):
        E = Engine(self.M); stubs.install(E)
        def fatal(E_, st, a): raise Abort('VL_FATAL: ' + E_.read_cstr(st, a[3]).decode(errors='replace'))
        E.stubs['_Z11VL_FATAL_MTPKciS0_S0_'] = fatal
        E.stubs['_ZN9Verilated9endOfEvalEP21VerilatedEvalMsgQueue'] = stubs.s_nop
        return E

    def fresh(self, E):
        """object graph wired as the generated constructors do; all state cells still unset"""
        st = State()
        size = E.run1('m_size', [], st)[1]
        p = st.alloc(size, self.tag + '-syms')
        st, _ = E.run1('m_wire', [p], st)
        self.fp = {}
        for k, n in enumerate(self.names):
            st, q = E.run1('m_f', [p, k], st); self.fp[n] = q
        return st, p
    def put(self, E, st, name, v): E.store(st, self.fp[name], self.width[name], v)
    def get(self, E, st, name):
        v = E.load(st, self.fp[name], self.width[name])
        if isinstance(v, PV): v = E.use(st, v, 'observable net ' + name)
        return v

def run_all(E, fn, args, states, prep=None):
    """apply fn to each state; collect returning states (other outcomes raise)"""
    out = []
    for s in states:
        if prep: prep(s)
        for r in E.run(fn, args, s):
            if r.kind != 'ret': raise Inconclusive(f"{fn}: path ended in {r.kind}: {r.val}")
            out.append(r.st)
    return out
