# R family: Verilator-generated C++ for the repository's RTL, compiled to IR and run by the engine.
from common import *
import re, glob

VL_INC = '/usr/share/verilator/include'
PORTS = ['i_clk', 'i_rst', 'i_f_data', 'i_d_data', 'o_f_valid', 'o_f_addr', 'o_d_valid', 'o_d_we', 'o_d_addr', 'o_d_data', 'o_syscall_valid', 'o_syscall']
REGS = ['pc_q', 'areg_q', 'breg_q', 'oreg_q']

def _members(hdr):
    """member name -> byte width, from a Verilator generated class header"""
    out = {}
    body = open(hdr).read()
    for m in re.finditer(r'VL_(IN|OUT|INOUT)(8|16|64|W)?\((\w+),(\d+),(\d+)', body):
        out[m.group(3)] = {'8': 1, '16': 2, None: 4, '64': 8}.get(m.group(2), 4)
    for m in re.finditer(r'\b(CData|SData|IData|QData)/\*[^*]*\*/\s+(\w+);', body):
        out[m.group(2)] = {'CData': 1, 'SData': 2, 'IData': 4, 'QData': 8}[m.group(1)]
    return out

class ProcModel:
    """stand-alone `processor` module verilated from the given sources"""
    def __init__(self, tag, sources):
        self.tag = tag; pre = self.pre = 'V' + tag
        d = self.dir = build.verilate('processor', sources, pre, extra=['-Wno-fatal'])
        root = _members(os.path.join(d, f'{pre}___024root.h'))
        sub = _members(os.path.join(d, f'{pre}_processor.h')) if os.path.exists(os.path.join(d, f'{pre}_processor.h')) else {}
        acc = []; self.width = {}
        def find(name):
            for cand, where, tbl in [(name, 'TOP', root)] + [(k, 'TOP', root) for k in root if k.endswith('__DOT__' + name)] + \
                                    [(k, 'TOP__processor', sub) for k in sub if k == name or k == '__PVT__' + name]:
                if cand in tbl: return f"s->{where}.{cand}", tbl[cand]
            raise Inconclusive(f"{tag}: signal {name} not found in the Verilator output")
        names = PORTS + REGS + ['__Vtrigrprev__TOP__i_clk', '__Vtrigrprev__TOP__i_rst']
        for k, n in enumerate(names):
            expr, w = find(n); acc.append(f"    case {k}: return &{expr};"); self.width[n] = w
        self.names = names
        cpps = sorted(glob.glob(os.path.join(d, f'{pre}_*__DepSet_*.cpp')))
        wire = f"*({pre}__Syms**)&s->TOP.vlSymsp = s;"
        if sub: wire += f" *({pre}__Syms**)&s->TOP__processor.vlSymsp = s; s->TOP.processor = &s->TOP__processor;"
        src = '#include "verilated.h"\n' + f'#include "{pre}__Syms.h"\n' + ''.join(f'#include "{c}"\n' for c in cpps) + f'''
void {pre}___024root___eval({pre}___024root* vlSelf);
void {pre}___024root___eval_static({pre}___024root* vlSelf);
void {pre}___024root___eval_initial({pre}___024root* vlSelf);
void {pre}___024root___eval_settle({pre}___024root* vlSelf);
extern "C" {{
unsigned long m_size() {{ return sizeof({pre}__Syms); }}
void m_wire({pre}__Syms* s) {{ {wire} }}
void m_init({pre}__Syms* s) {{ {pre}___024root___eval_static(&s->TOP); {pre}___024root___eval_initial(&s->TOP); {pre}___024root___eval_settle(&s->TOP); }}
void m_eval({pre}__Syms* s) {{ {pre}___024root___eval(&s->TOP); }}
void* m_f({pre}__Syms* s, int k) {{
  switch (k) {{
{chr(10).join(acc)}
  }}
  return 0;
}}
}}
'''
        wrap = os.path.join(d, 'wrap.cpp'); open(wrap, 'w').write(src)
        self.ll = build.ir(wrap, includes=[d, VL_INC, os.path.join(VL_INC, 'vltstd')])
        self.M = parse_module(self.ll)

    def engine(self):
        E = Engine(self.M); stubs.install(E)
        def fatal(E_, st, a): raise Abort('VL_FATAL: ' + E_.read_cstr(st, a[3]).decode(errors='replace'))
        E.stubs['_Z11VL_FATAL_MTPKciS0_S0_'] = fatal
        E.stubs['_ZN9Verilated9endOfEvalEP21VerilatedEvalMsgQueue'] = stubs.s_nop
        return E

    def fresh(self, E):
        """object graph wired as the generated constructors do; all state cells still unset"""
        st = State()
        size = E.run1('m_size', [], st)[1]
        p = st.alloc(size, self.tag + '-syms')
        st, _ = E.run1('m_wire', [p], st)
        self.fp = {}
        for k, n in enumerate(self.names):
            st, q = E.run1('m_f', [p, k], st); self.fp[n] = q
        return st, p
    def put(self, E, st, name, v): E.store(st, self.fp[name], self.width[name], v)
    def get(self, E, st, name):
        v = E.load(st, self.fp[name], self.width[name])
        if isinstance(v, PV): v = E.use(st, v, 'observable net ' + name)
        return v

def run_all(E, fn, args, states, prep=None):
    """apply fn to each state; collect returning states (other outcomes raise)"""
    out = []
    for s in states:
        if prep: prep(s)
        for r in E.run(fn, args, s):
            if r.kind != 'ret': raise Inconclusive(f"{fn}: path ended in {r.kind}: {r.val}")
            out.append(r.st)
    return out

HEX_SOURCES = ['verilog/hex_pkg.sv', 'verilog/hex.sv', 'verilog/processor.sv', 'verilog/memory.sv']
HEX_SIGNALS = ['i_clk', 'i_rst', 'o_syscall_valid', 'o_syscall', '__Vtrigrprev__TOP__i_clk', '__Vtrigrprev__TOP__i_rst',
               'pc_q', 'areg_q', 'breg_q', 'oreg_q', 'instr', 'memory_q']
RTL_MEMWORDS = 1 << 19

class HexModel:
    """top-level `hex` (processor + memory) verilated with the arguments of the CMake build (--trace, prefix Vhex_pkg)"""
    def __init__(self, sources=HEX_SOURCES, tag='hex'):
        pre = self.pre = 'Vhex_pkg'; self.tag = tag
        d = self.dir = build.verilate('hex', sources, pre, extra=['--trace', '-Wno-fatal'] if tag != 'hex' else ['--trace'])
        mods = {'TOP': f'{pre}___024root.h', 'TOP__hex': f'{pre}_hex.h', 'TOP__hex__u_memory': f'{pre}_memory.h', 'TOP__hex__u_processor': f'{pre}_processor.h'}
        tables = {w: _members(os.path.join(d, h)) for w, h in mods.items() if os.path.exists(os.path.join(d, h))}
        self.present = list(tables)
        for w, h in mods.items():
            if w in tables and 'memory_q' in open(os.path.join(d, h)).read():
                for m_ in re.finditer(r'VlUnpacked<IData/\*31:0\*/, (\d+)> (\w*memory_q);', open(os.path.join(d, h)).read()):
                    tables[w][m_.group(2)] = 4; self.memwords = int(m_.group(1))
        def find(name):
            for where, tbl in tables.items():
                for k in tbl:
                    if k == name or k == '__PVT__' + name or k.endswith('__DOT__' + name):
                        return f"s->{where}.{k}", tbl[k]
            raise Inconclusive(f"signal {name} not found in the Verilator output")
        acc = []; self.width = {}; self.names = []
        for n in HEX_SIGNALS:
            try: find(n); self.names.append(n)
            except Inconclusive:
                if n != 'instr': raise          # 'instr' is only public in processor.sv; nothing depends on it
        for k, n in enumerate(self.names):
            expr, w = find(n); self.width[n] = w
            acc.append(f"    case {k}: return &{expr}{'[0]' if n == 'memory_q' else ''};")
        # every other scalar member of the design (registers and nets this harness does not know by name)
        known = set()
        for n in self.names:
            for where, tbl in tables.items():
                for k in tbl:
                    if k == n or k == '__PVT__' + n or k.endswith('__DOT__' + n): known.add((where, k))
        self.extra = []
        for where, tbl in tables.items():
            for k, w in sorted(tbl.items()):
                if (where, k) in known or k.startswith('__V') or 'memory_q' in k: continue
                self.extra.append((where, k, w))
        for j, (where, k, w) in enumerate(self.extra):
            acc.append(f"    case {len(self.names) + j}: return &s->{where}.{k};")
        cpps = sorted(c for c in glob.glob(os.path.join(d, f'{pre}_*__DepSet_*.cpp')))
        wire = f"*({pre}__Syms**)&s->TOP.vlSymsp = s;"
        if 'TOP__hex' in tables: wire += f" *({pre}__Syms**)&s->TOP__hex.vlSymsp = s; s->TOP.hex = &s->TOP__hex;"
        if 'TOP__hex__u_memory' in tables: wire += f" *({pre}__Syms**)&s->TOP__hex__u_memory.vlSymsp = s; s->TOP__hex.u_memory = &s->TOP__hex__u_memory;"
        if 'TOP__hex__u_processor' in tables: wire += f" *({pre}__Syms**)&s->TOP__hex__u_processor.vlSymsp = s; s->TOP__hex.u_processor = &s->TOP__hex__u_processor;"
        src = '#include "verilated.h"\n#include "verilated_vcd_c.h"\n' + f'#include "{pre}__Syms.h"\n' + ''.join(f'#include "{c}"\n' for c in cpps) + f'''
void {pre}___024root___eval({pre}___024root* vlSelf);
void {pre}___024root___eval_static({pre}___024root* vlSelf);
void {pre}___024root___eval_initial({pre}___024root* vlSelf);
void {pre}___024root___eval_settle({pre}___024root* vlSelf);
extern "C" {{
unsigned long m_size() {{ return sizeof({pre}__Syms); }}
void m_wire({pre}__Syms* s) {{ {wire} }}
void m_init({pre}__Syms* s) {{ {pre}___024root___eval_static(&s->TOP); {pre}___024root___eval_initial(&s->TOP); {pre}___024root___eval_settle(&s->TOP); }}
void m_eval({pre}__Syms* s) {{ {pre}___024root___eval(&s->TOP); }}
void* m_f({pre}__Syms* s, int k) {{
  switch (k) {{
{chr(10).join(acc)}
  }}
  return 0;
}}
}}
'''
        wrap = os.path.join(d, 'wrap.cpp'); open(wrap, 'w').write(src)
        self.ll = build.ir(wrap, includes=[d, VL_INC, os.path.join(VL_INC, 'vltstd')])
        self.M = parse_module(self.ll)

    def engine(self):
        E = Engine(self.M); stubs.install(E)
        def fatal(E_, st, a): raise Abort('VL_FATAL: ' + E_.read_cstr(st, a[3]).decode(errors='replace'))
        E.stubs['_Z11VL_FATAL_MTPKciS0_S0_'] = fatal
        E.stubs['_ZN9Verilated9endOfEvalEP21VerilatedEvalMsgQueue'] = stubs.s_nop
        E.stubs['_Z17VL_TESTPLUSARGS_IRKNSt7__cxx1112basic_stringIcSt11char_traitsIcESaIcEEE'] = stubs.s_ret0
        return E

    def fresh(self, E, mem_arr, over=None, junk=False):
        st = State()
        size = E.run1('m_size', [], st)[1]
        p = st.alloc(size, 'hex-syms')
        st, _ = E.run1('m_wire', [p], st)
        self.fp = {}
        for k, n in enumerate(self.names):
            st, q = E.run1('m_f', [p, k], st); self.fp[n] = q
        self.junk = []
        if junk:
            # members unknown to the harness (a register added to the design, or a net) hold arbitrary values: nets are
            # recomputed by the settle evaluation, registers keep them - the clock must not depend on them
            for j, (where, k, w) in enumerate(self.extra):
                st, q = E.run1('m_f', [p, len(self.names) + j], st)
                v = z3.BitVec(f'rtl_member_{k}', 8*w); E.store(st, q, w, v); self.junk.append((k, v))
        st.objs[p.obj].regions.append(Region(self.fp['memory_q'].off, 4, self.memwords, mem_arr, over))
        # __Vm_activity etc. (trace bookkeeping) are plain members initialised by the Syms constructor
        st.objs[p.obj].zero.append((0, self.fp['memory_q'].off if self.fp['memory_q'].off < 4096 else 4096))
        return st, p
    def put(self, E, st, name, v): E.store(st, self.fp[name], self.width[name], v)
    def get(self, E, st, name):
        v = E.load(st, self.fp[name], self.width[name])
        if isinstance(v, PV): v = E.use(st, v, 'observable net ' + name)
        return v
    def mem(self, st, p): return st.objs[p.obj].regions[0]

class TbModel:
    """hextb.cpp (its own load/run/handleSyscall) on top of the Verilated hex model built by the real constructor chain"""
    def __init__(self, noinline=False):
        pre = 'Vhex_pkg'
        d = self.dir = build.verilate('hex', HEX_SOURCES, pre, extra=['--trace'])
        cpps = sorted(c for c in glob.glob(os.path.join(d, f'{pre}*.cpp')) if '__Trace' not in c and '__Dpi' not in c)
        src = '#define main hextb_main\n#include "' + os.path.join(build.REPO, 'hextb.cpp') + '"\n#undef main\n' + '#include "hex.cpp"\n' + \
              '#include "Vhex_pkg__Syms.h"\n' + ''.join(f'#include "{c}"\n' for c in cpps) + '''
extern "C" {
void* tb_reg(Vhex_pkg* t, int k) {
  switch (k) { case 0: return &t->hex->u_processor->pc_q; case 1: return &t->hex->u_processor->__PVT__areg_q;
    case 2: return &t->hex->u_processor->__PVT__breg_q; case 3: return &t->hex->u_processor->__PVT__oreg_q;
    case 4: return &t->hex->u_memory->memory_q[0]; case 5: return &t->i_clk; case 6: return &t->i_rst;
    case 7: return &t->o_syscall_valid; case 8: return &t->o_syscall; }
  return 0;
}
unsigned long tb_memoff(Vhex_pkg_memory* m) { return (char*)&m->memory_q[0] - (char*)m; }
void* tb_memfield(Vhex_pkg_memory* m, int k) {
  switch (k) {
MEMFIELDS
  }
  return 0;
}
Vhex_pkg* tb_new(VerilatedContext* c) { return new Vhex_pkg{c, "TOP"}; }
int tb_run(VerilatedContext* c, Vhex_pkg* t, unsigned long maxc) {
  const std::unique_ptr<VerilatedContext> contextp{c};
  const std::unique_ptr<Vhex_pkg> top{t};
  int r = run(contextp, top, false, maxc);
  (void)const_cast<std::unique_ptr<VerilatedContext>&>(contextp).release();
  (void)const_cast<std::unique_ptr<Vhex_pkg>&>(top).release();
  return r;
}
void tb_load(const char* fn, Vhex_pkg* t) {
  const std::unique_ptr<Vhex_pkg> top{t};
  load(fn, top);
  (void)const_cast<std::unique_ptr<Vhex_pkg>&>(top).release();
}
void tb_syscall(int sc, Vhex_pkg* t, int* exitCode) {
  const std::unique_ptr<Vhex_pkg> top{t};
  handleSyscall(static_cast<hex::Syscall>(sc), top, *exitCode, false);
  (void)const_cast<std::unique_ptr<Vhex_pkg>&>(top).release();
}
unsigned long tb_ctxsize() { return sizeof(VerilatedContext); }
void tb_settime(VerilatedContext* c, unsigned long t) { c->time(t); }
unsigned long tb_gettime(VerilatedContext* c) { return c->time(); }
}
'''
        mm = _members(os.path.join(d, f'{pre}_memory.h')) if os.path.exists(os.path.join(d, f'{pre}_memory.h')) else {}
        self.memfields = [(k, w) for k, w in sorted(mm.items()) if 'memory_q' not in k]
        src = src.replace('MEMFIELDS', '\n'.join(f"    case {j}: return &m->{k};" for j, (k, w) in enumerate(self.memfields)))
        wrap = os.path.join(d, 'tbwrap.cpp'); open(wrap, 'w').write(src)
        self.ll = build.ir(wrap, includes=[d, VL_INC, os.path.join(VL_INC, 'vltstd')], extra=['-fno-inline'] if noinline else [])
        self.M = parse_module(self.ll)
