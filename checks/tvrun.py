# Shared driver of the TV-family checks (C01, C07, C08): runs the program set of the tier in parallel.
from tvlib import *
sys.path.insert(0, os.path.join(build.VERIF, 'gen'))
import xgen

_TV = None
PER_PROGRAM_S = 60
def _blank(src, status):
    return dict(src=src, status=status, findings=[], monitor=[], ref_paths=0, bin_paths=0, excluded=0, cut=1 if status.startswith('cut') else 0,
                queries=0, solver_s=0.0, steps=0, obligations=0, discharged=0)

def _work(job):
    global _TV
    name, src, nsym, nin, max_instr = job
    r = None
    try:
        if _TV is None: _TV = TV()
        r = validate(_TV, src, nsym=nsym, nin=nin, max_instr=max_instr, want_calls=True, deadline=time.time() + PER_PROGRAM_S)
    except Inconclusive as e:
        if 'path budget' in str(e): r = _blank(src, "cut: path budget")
        else: r = _blank(src, f"engine-error: Inconclusive: {e}")
    except BaseException as e:
        import traceback
        r = _blank(src, f"engine-error: {type(e).__name__}: {e}"); r['tb'] = traceback.format_exc()[-1200:]
    r['name'] = name
    if 'compiled' in r:
        c = r.pop('compiled'); r['listing_bad'] = listing_vs_image(c); r['nwords'] = c.nwords
    return r

def shipped_programs():
    out = []
    d = os.path.join(build.REPO, 'tests', 'x')
    for f in sorted(os.listdir(d)):
        if f.endswith('.x') and f != 'xhexb.x':
            out.append(('shipped:' + f, open(os.path.join(d, f)).read(), 0, 2, 3000))
    return out

def jobs_for(ck, include_shipped=True):
    progs = xgen.programs(ck.tier, ck.seed)
    jobs = [(n, s, 2, 1, 2000 if ck.tier == 'quick' else 4000) for n, s in progs]
    if include_shipped: jobs += shipped_programs()
    return jobs

def run_jobs(jobs, procs=16):
    TV().close()          # build everything once before forking
    build.tool('xcmp'); build.tool('hexsim')
    pool = multiprocessing.Pool(procs)
    try:
        handles = [pool.apply_async(_work, (j,)) for j in jobs]
        res = []
        for j, h in zip(jobs, handles):
            try: res.append(h.get(timeout=PER_PROGRAM_S * 3 + 120))
            except multiprocessing.TimeoutError:
                r = _blank(j[1], "cut: worker did not answer"); r['name'] = j[0]; res.append(r)
            except Exception as e:
                r = _blank(j[1], f"engine-error: {type(e).__name__}: {e}"); r['name'] = j[0]; res.append(r)
    finally:
        pool.terminate()
    return res

def fold(ck, results):
    for r in results:
        ck.cov['paths'] += r['bin_paths']; ck.cov['paths_cut'] += r['cut']; ck.cov['queries'] += r['queries']; ck.cov['solver_s'] += r['solver_s']
        ck.cov['ir_steps'] += r['steps']; ck.cov['obligations'] += r['obligations']; ck.cov['discharged'] += r['discharged']
        if 'smt' in r and len(ck.final_queries) < (40 if ck.tier == 'thorough' else 4): ck.final_queries.append(r['smt'])
    st = {}
    for r in results: st[r['status'].split(':')[0].split(' ')[0]] = st.get(r['status'].split(':')[0].split(' ')[0], 0) + 1
    ck.cov['program_status'] = st
    ck.cov['programs'] = len(results)
    ck.cov['ref_paths_excluded_as_undefined'] = sum(r['excluded'] for r in results)
    ck.cov['functions'] |= {'hexsim::Processor::run', 'hexsim::Processor::syscall'}
