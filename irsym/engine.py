# irsym: path-forking symbolic interpreter for clang-14 textual LLVM IR (see DESIGN.md section 2).
import re, time
import z3
from .ir import T, Unsupported, parse_module, decode, split_top
from .values import *

I8P = T('ptr', T('int', 8))
I1 = T('int', 1)
STD_TI_BASE = {  # libstdc++ exception typeinfo is external: base chain by table
    '_ZTISt13runtime_error': '_ZTISt9exception', '_ZTISt11logic_error': '_ZTISt9exception',
    '_ZTISt16invalid_argument': '_ZTISt11logic_error', '_ZTISt12out_of_range': '_ZTISt11logic_error',
    '_ZTISt12length_error': '_ZTISt11logic_error', '_ZTISt9bad_alloc': '_ZTISt9exception',
    '_ZTISt8bad_cast': '_ZTISt9exception', '_ZTISt14overflow_error': '_ZTISt13runtime_error',
    '_ZTISt12system_error': '_ZTISt13runtime_error', '_ZTINSt8ios_base7failureB5cxx11E': '_ZTISt12system_error',
    '_ZTISt20bad_array_new_length': '_ZTISt9bad_alloc',
}

class PathResult:
    __slots__ = ('st', 'kind', 'val')
    def __init__(s, st, kind, val): s.st, s.kind, s.val = st, kind, val
    def __repr__(s): return f"<{s.kind} {s.val!r}>"
    def __iter__(s): return iter((s.st, s.val))      # (state, value) unpacking

class Engine:
    def __init__(self, M, timeout_ms=120000):
        self.M = M; self.stubs = {}
        self.solver = z3.Solver(); self.solver.set('timeout', timeout_ms); self.sstack = []
        self.nq = 0; self.tq = 0.0; self.steps = 0; self.npaths = 0
        self.gids = {}; self.called = set(); self.tiids = {}; self._ce = {}
        self.soft_ub = True; self.ub = []            # UB findings recorded (what, model) when soft
        self.ub_x = []                               # per UB finding: the path's harness dictionary (st.x) at that moment
        self.max_steps = 2_000_000; self.max_paths = 100000
        self.check_poison = True
        self.ptr_order = []                          # cross-object pointer ordering comparisons seen
        self.fresh = 0
        self.trace = False
        self.prefix_stubs = []
        self.concretize_stores = False
        self.deadline = None          # wall-clock limit (time.time() value): paths still running then are cut (Budget)
        self.lazy_branches = False    # search mode: symbolic branches fork without a feasibility query
        self.region_hook = None       # called as hook(st, 'load'|'store', region, index, nbytes, value) on array-region accesses

    # ------------------------------------------------------------------ solver
    def _sync(self, pc):
        ss = self.sstack; k = 0; n = min(len(ss), len(pc))
        while k < n and ss[k] is pc[k]: k += 1
        for _ in range(len(ss) - k): self.solver.pop()
        del ss[k:]
        for c in pc[k:]:
            self.solver.push(); self.solver.add(c); ss.append(c)

    def sat(self, st, extra=None):
        """is pc /\\ extra satisfiable? -> (bool, model)"""
        t0 = time.time(); self.nq += 1
        self._sync(st.pc)
        if extra is not None:
            self.solver.push(); self.solver.add(extra)
        r = self.solver.check()
        m = self.solver.model() if r == z3.sat else None
        if extra is not None: self.solver.pop()
        self.tq += time.time() - t0
        if r == z3.unknown: raise Inconclusive("solver unknown: " + self.solver.reason_unknown())
        return r == z3.sat, m

    def assume(self, st, c):
        st.pc.append(c)
        if st.model is not None and not z3.is_true(st.model.eval(c, model_completion=True)): st.model = None

    def feasible(self, st, c):
        """(can c hold, can not-c hold) under pc, using the cached model to save a query"""
        mt = mf = None
        if st.model is not None:
            v = st.model.eval(c, model_completion=True)
            if z3.is_true(v): mt = st.model
            elif z3.is_false(v): mf = st.model
        if mt is None:
            ok, mt = self.sat(st, c)
            if not ok: return (False, None), (True, st.model)
        if mf is None:
            ok, mf = self.sat(st, z3.Not(c))
            if not ok: return (True, mt), (False, None)
        return (True, mt), (True, mf)

    def must(self, st, cond, kind, what):
        """cond must hold on every input of this path; otherwise UB/violation.
        soft: record and continue under cond; hard: raise Violation"""
        if isinstance(cond, bool):
            if cond: return
            raise Violation(kind, what)
        cond = z3.simplify(cond)
        if z3.is_true(cond): return
        ok, m = self.sat(st, z3.Not(cond))
        if not ok: return
        if self.soft_ub and kind in ('ub-overflow', 'ub-shift', 'ub-abs'):
            self.ub.append((kind, what, m, list(st.pc))); self.ub_x.append(dict(st.x))
            ok2, _ = self.sat(st, cond)
            if not ok2: raise Violation(kind, what + " (on every input of the path)", m)
            self.assume(st, cond); return
        raise Violation(kind, what, m)

    def newsym(self, name, w):
        self.fresh += 1
        return z3.BitVec(f"{name}!{self.fresh}", w)

    # ------------------------------------------------------------------ memory objects
    def getobj(self, st, key):
        o = st.objs.get(key)
        if o is None:
            if not isinstance(key, tuple): raise Violation('bad-pointer', f"access to unknown object {key}")
            o = self.materialise(st, key); o.tok = st.tok; st.objs[key] = o
        return o

    def materialise(self, st, key):
        M = self.M
        name = key[1]
        name = M.aliases.get(name, name)
        ext = getattr(self, 'extern', {}).get(name)
        if ext is not None: return ext(self, st, name)
        if name in M.funcs or name in self.stubs or name not in M.globals:
            o = Obj(0, name); o.func = name; return o
        txt = M.globals[name]
        m = re.match(r'((?:[a-z_]+(?:\([^)]*\))? )*?)(global|constant) (.*)$', txt)
        if not m: raise Unsupported("global " + name + " = " + txt[:60])
        rest = m.group(3)
        t, i = M.parse_type(rest)
        init = rest[i:].strip()
        init = re.sub(r',\s*(comdat(\([^)]*\))?|align \d+|section "[^"]*"|!\w+ !\d+|partition "[^"]*")', '', init).strip()
        external = 'external' in m.group(1).split()
        try: size = M.layout(t)[0]
        except Unsupported: size = 1 << 30
        o = Obj(size, name); o.const = m.group(2) == 'constant'
        if external or not init: return o              # external data: contents unknown (reads are Undef)
        self.init_cells(o, 0, t, init)
        return o

    def init_cells(self, o, off, t, init):
        M = self.M
        rt = M.resolve(t)
        if init == 'zeroinitializer':
            o.zero.append((off, off + M.layout(rt)[0])); return
        if init == 'undef': return
        if rt.k == 'int':
            v = {'true': 1, 'false': 0}.get(init)
            if v is None:
                mrel = re.match(r'trunc \(i64 sub \(i64 ptrtoint \((.*?) to i64\), i64 ptrtoint \((.*?) to i64\)\) to i32\)$', init)
                if mrel:
                    t1, i1 = M.parse_type(mrel.group(1))
                    o.cells[off] = (4, RelPtr(self.const_operand(mrel.group(1)[i1:].strip(), t1))); return
                v = self.const_int(init) & mask(rt.a)
            o.cells[off] = (M.layout(rt)[0], v); return
        if rt.k in ('ptr', 'func'):
            o.cells[off] = (8, self.const_operand(init, rt)); return
        if rt.k == 'array':
            if init.startswith('c"'):
                bs = init[2:init.rindex('"')]
                k = 0; n = 0
                while k < len(bs):
                    if bs[k] == '\\':
                        o.cells[off+n] = (1, int(bs[k+1:k+3], 16)); k += 3
                    else:
                        o.cells[off+n] = (1, ord(bs[k])); k += 1
                    n += 1
                return
            inner = init[init.index('[')+1: init.rindex(']')]
            esz = M.layout(rt.b)[0]
            for n, e in enumerate(split_top(inner)):
                et, j = M.parse_type(e); self.init_cells(o, off + n*esz, et, e[j:].strip())
            return
        if rt.k == 'struct':
            st_ = init.index('{'); inner = init[st_+1: init.rindex('}')]
            for n, e in enumerate(split_top(inner)):
                et, j = M.parse_type(e); fo, _ = M.field_off(rt, n)
                self.init_cells(o, off + fo, et, e[j:].strip())
            return
        raise Unsupported("initialiser " + init[:40])

    def const_int(self, tok):
        """integer constant expression (switch lookup tables with relative offsets)"""
        tok = tok.strip()
        if re.match(r'-?\d+$', tok): return int(tok)
        M = self.M
        op = tok.split(None, 1)[0]
        inner = tok[tok.index('(')+1: tok.rindex(')')]
        if op in ('trunc', 'zext', 'sext', 'ptrtoint'):
            k = inner.rindex(' to ')
            t, i = M.parse_type(inner[:k]); tt, _ = M.parse_type(inner[k+4:])
            if op == 'ptrtoint': return self.addr(self.const_operand(inner[:k][i:].strip(), t))
            v = self.const_int(inner[:k][i:].strip()); fw = M.resolve(t).a; tw = M.resolve(tt).a
            if op == 'sext': v = sgn(v & mask(fw), fw)
            return v & mask(tw)
        if op in ('sub', 'add'):
            rest = re.sub(r'^(nuw |nsw )*', '', inner)
            a, b = split_top(rest)
            t, i = M.parse_type(a); t2, j = M.parse_type(b)
            x = self.const_int(a[i:].strip()); y = self.const_int(b[j:].strip())
            return (x - y if op == 'sub' else x + y) & mask(M.resolve(t).a)
        raise Unsupported("integer constant expression " + tok[:60])

    def const_operand(self, tok, rt):
        if tok == 'null': return NULL
        if tok in ('undef', 'poison'): return NULL
        if tok[0] == '@': return Ptr(('g', self.M.aliases.get(tok[1:].strip('"'), tok[1:].strip('"'))), 0)
        return self.constexpr(tok)

    def constexpr(self, tok):
        M = self.M
        c = self._ce.get(tok)
        if c is not None: return c
        if tok.startswith('bitcast') or tok.startswith('addrspacecast'):
            inner = tok[tok.index('(')+1: tok.rindex(')')]
            k = inner.rindex(' to ')
            t, i = M.parse_type(inner[:k]); r = self.const_operand(inner[:k][i:].strip(), t)
        elif tok.startswith('getelementptr'):
            inner = tok[tok.index('(')+1: tok.rindex(')')]
            parts = split_top(inner)
            bt, _ = M.parse_type(parts[0]); pt, i = M.parse_type(parts[1])
            p = self.const_operand(parts[1][i:].strip(), pt)
            off = p.off; t = bt; first = True
            for q in parts[2:]:
                q = q.replace('inrange ', '')
                it, j = M.parse_type(q); v = int(q[j:].strip())
                if first: off += v*M.layout(t)[0]; first = False
                else:
                    rt = M.resolve(t)
                    if rt.k == 'struct': fo, ft = M.field_off(rt, v); off += fo; t = ft
                    else: off += v*M.layout(rt.b)[0]; t = rt.b
            r = Ptr(p.obj, off)
        elif tok.startswith('ptrtoint'):
            inner = tok[tok.index('(')+1: tok.rindex(')')]
            k = inner.rindex(' to ')
            t, i = M.parse_type(inner[:k]); r = self.addr(self.const_operand(inner[:k][i:].strip(), t))
        elif tok.startswith('inttoptr'):
            inner = tok[tok.index('(')+1: tok.rindex(')')]
            k = inner.rindex(' to ')
            t, i = M.parse_type(inner[:k]); r = self.int2ptr(int(inner[:k][i:].strip()))
        else: raise Unsupported("constexpr " + tok[:60])
        self._ce[tok] = r
        return r

    def addr(self, p):
        """concrete fake address of a pointer: object id << 36 | offset"""
        if p.obj == 0: return p.off
        if isinstance(p.obj, tuple):
            i = self.gids.get(p.obj)
            if i is None: i = self.gids[p.obj] = (1 << 20) + len(self.gids)
        else: i = p.obj
        return (i << 36) + p.off

    def int2ptr(self, v):
        if v == 0: return NULL
        i = v >> 36; off = v & ((1 << 36) - 1)
        if off >> 35: off -= 1 << 36; i += 1
        if i >= (1 << 20):
            for k, g in self.gids.items():
                if g == i: return Ptr(k, off)
        if i == 0: return Ptr(0, off)
        return Ptr(i, off)

    # ------------------------------------------------------------------ load / store
    def _bounds(self, st, o, off, n, what):
        if o.freed: raise Violation('use-after-free', f"{what} of freed object {o.name}")
        if o.func is not None: raise Violation('bad-pointer', f"{what} through function pointer {o.name}")
        if off < 0 or off + n > o.size:
            raise Violation('out-of-bounds', f"{what} of {n} bytes at offset {off} of object '{o.name}' (size {o.size})")
        if o.guard:
            for lo, hi, msg in o.guard:
                if off < hi and off + n > lo: raise Violation('out-of-bounds', f"{what} at offset {off} of '{o.name}': {msg}")

    def _region_idx(self, st, r, off, nbytes, what):
        rel = simp(bv(off, 64) - z3.BitVecVal(r.base, 64)) if not is_c(off) else off - r.base
        if is_c(rel):
            return rel // r.esz, rel % r.esz
        q = z3.UDiv(rel, z3.BitVecVal(r.esz, 64)) if r.esz & (r.esz-1) else z3.LShR(rel, r.esz.bit_length()-1)
        self.must(st, z3.And(z3.ULT(q, z3.BitVecVal(r.cnt, 64)), z3.ULE(rel, z3.BitVecVal(r.esz*r.cnt - nbytes, 64))), 'out-of-bounds',
                  f"{what}: index into {r.cnt}-element array out of range")
        idx = simp(z3.Extract(r.isort-1, 0, q))
        sub = simp(z3.Extract(7, 0, rel) & (r.esz-1)) if r.esz > 1 else 0
        return idx, sub

    def load(self, st, p, nbytes, isptr=False):
        if isinstance(p, PtrIte):
            # a side whose guard the path condition excludes is not accessed (it may be null or dangling)
            (t_ok, _mt), (f_ok, _mf) = self.feasible(st, p.c)
            if not f_ok: return self.load(st, p.a, nbytes, isptr)
            if not t_ok: return self.load(st, p.b, nbytes, isptr)
            x = self.load(st, p.a, nbytes, isptr); y = self.load(st, p.b, nbytes, isptr)
            if isinstance(x, Ptr) and isinstance(y, Ptr):
                return x if x == y else PtrIte(p.c, x, y)
            if isinstance(x, (Undef, PV)) or isinstance(y, (Undef, PV)) or isinstance(x, (Ptr, PtrIte)) or isinstance(y, (Ptr, PtrIte)):
                # the two targets hold values that cannot be merged into one term: decide the guard (forks, re-executing the instruction)
                return x if self.branch_inline(st, p.c) else y
            return simp(z3.If(p.c, bv(x, nbytes*8), bv(y, nbytes*8)))
        if p.obj == 0: raise Violation('null-deref', f"load through null pointer (offset {p.off})")
        o = self.getobj(st, p.obj)
        off = p.off
        if not is_c(off): off = simp(off)
        if is_c(off):
            if off >= 1 << 63: off -= 1 << 64
            self._bounds(st, o, off, nbytes, 'load')
            c = o.cells.get(off)
            if c is not None and c[0] == nbytes: return c[1]
            for r in o.regions:
                if r.base <= off < r.base + r.esz*r.cnt:
                    idx, sub = divmod(off - r.base, r.esz)
                    if self.region_hook: self.region_hook(st, 'load', r, idx, nbytes, None)
                    if sub == 0 and nbytes == r.esz: return r.get(idx)
                    if sub + nbytes <= r.esz:
                        w = r.get(idx)
                        return (w >> (8*sub)) & mask(8*nbytes) if is_c(w) else simp(z3.Extract(8*(sub+nbytes)-1, 8*sub, w))
                    raise Unsupported("load straddling array elements")
            return self._load_bytes(st, o, off, nbytes, isptr)
        for r in o.regions:
            idx, sub = self._region_idx(st, r, off, nbytes, 'load')
            if self.region_hook: self.region_hook(st, 'load', r, idx, nbytes, None)
            w = r.get(idx)
            if nbytes == r.esz and is_c(sub) and sub == 0: return w if is_c(w) else w
            if nbytes < r.esz:
                if is_c(sub): return simp(z3.Extract(8*(sub+nbytes)-1, 8*sub, bv(w, r.esz*8)))
                sh = z3.ZeroExt(r.esz*8-8, bv(sub, 8)) * 8
                return simp(z3.Extract(nbytes*8-1, 0, z3.LShR(bv(w, r.esz*8), sh)))
            raise Unsupported("symbolic load wider than region element")
        if o.func is not None: raise Violation('bad-pointer', "load through function pointer")
        off = self.concretize(st, off, f"symbolic offset into object '{o.name}'")
        return self.load(st, Ptr(p.obj, off), nbytes, isptr)

    def _load_bytes(self, st, o, off, nbytes, isptr):
        bs = []
        for k in range(nbytes):
            a = off + k; found = None
            for back in range(0, 9):
                cc = o.cells.get(a - back)
                if cc is not None:
                    if cc[0] > back: found = (cc, back)
                    break
            if found is None:
                if any(x <= a < y for x, y in o.zero): bs.append(0); continue
                return Undef(f"object '{o.name}' offset {off}")
            (sz, val), back = found
            if isinstance(val, (Ptr, PtrIte)):
                if back == 0 and sz == nbytes: return val
                val = self.addr(val) if isinstance(val, Ptr) and is_c(val.off) else None
                if val is None: raise Unsupported("partial load of pointer cell")
            if isinstance(val, Undef): return val
            if isinstance(val, PV): return PV(0, val.c, val.why) if False else val if (sz == nbytes and back == 0) else Undef("partial poison")
            bs.append((val >> (8*back)) & 0xff if is_c(val) else z3.Extract(8*back+7, 8*back, val))
        if all(is_c(b) for b in bs):
            v = sum(b << (8*i) for i, b in enumerate(bs))
            return NULL if (isptr and v == 0) else v
        if len(bs) == 1: return simp(bs[0])
        return simp(z3.Concat(*[bv(b, 8) for b in reversed(bs)]))

    def store(self, st, p, nbytes, v):
        if isinstance(p, PtrIte):
            (t_ok, _mt), (f_ok, _mf) = self.feasible(st, p.c)
            if not f_ok: return self.store(st, p.a, nbytes, v)
            if not t_ok: return self.store(st, p.b, nbytes, v)
            x = self.load(st, p.a, nbytes); y = self.load(st, p.b, nbytes)
            if any(isinstance(t, (Ptr, PtrIte, Undef, PV)) for t in (x, y, v)): raise Unsupported("store through guarded pointer of non-plain value")
            self.store(st, p.a, nbytes, simp(z3.If(p.c, bv(v, nbytes*8), bv(x, nbytes*8))))
            self.store(st, p.b, nbytes, simp(z3.If(p.c, bv(y, nbytes*8), bv(v, nbytes*8)))); return
        if p.obj == 0: raise Violation('null-deref', f"store through null pointer (offset {p.off})")
        self.getobj(st, p.obj)
        o = st.wobj(p.obj)
        if o.const: raise Violation('write-const', f"store to constant object {o.name}")
        off = p.off
        if not is_c(off): off = simp(off)
        if is_c(off):
            if off >= 1 << 63: off -= 1 << 64
            self._bounds(st, o, off, nbytes, 'store')
            for r in o.regions:
                if r.base <= off < r.base + r.esz*r.cnt:
                    if isinstance(v, (Undef, Ptr, PtrIte)): raise Unsupported("store of non-integer into array region")
                    if isinstance(v, PV): v = self.use(st, v, 'store to memory array')
                    idx, sub = divmod(off - r.base, r.esz)
                    if self.region_hook: self.region_hook(st, 'store', r, idx, nbytes, v)
                    if sub == 0 and nbytes == r.esz: r.put(idx, v); return
                    if sub + nbytes <= r.esz:
                        w = bv(r.get(idx), r.esz*8); parts = []
                        if sub + nbytes < r.esz: parts.append(z3.Extract(r.esz*8-1, 8*(sub+nbytes), w))
                        parts.append(bv(v, nbytes*8))
                        if sub: parts.append(z3.Extract(8*sub-1, 0, w))
                        r.put(idx, simp(z3.Concat(*parts) if len(parts) > 1 else parts[0])); return
                    raise Unsupported("store straddling array elements")
            cells = o.cells
            cc = cells.get(off)
            if not (cc is not None and cc[0] == nbytes):
                # cells overlapping [off, off+nbytes) are split into bytes; the bytes inside the range are then dropped
                for k in range(off - 15, off + nbytes):
                    c2 = cells.get(k)
                    if c2 is not None and c2[0] > 1 and k + c2[0] > off and k < off + nbytes:
                        self._split_cell(o, k)
                for k in range(off, off + nbytes): cells.pop(k, None)
            cells[off] = (nbytes, v); return
        for r in o.regions:
            if isinstance(v, (Undef, Ptr, PtrIte)): raise Unsupported("store of non-integer into array region")
            if isinstance(v, PV): v = self.use(st, v, 'store to memory array')
            idx, sub = self._region_idx(st, r, off, nbytes, 'store')
            if self.concretize_stores and not is_c(idx):
                # keep later reads of other words concrete (an interpreter fetching code from the same array): fork over the store index
                idx = self.concretize(st, idx, 'index of a store into an array region')
            if self.region_hook: self.region_hook(st, 'store', r, idx, nbytes, v)
            if nbytes == r.esz: r.put(idx, v); return
            raise Unsupported("symbolic sub-element store")
        off = self.concretize(st, off, f"symbolic offset into object '{o.name}'")
        return self.store(st, Ptr(p.obj, off), nbytes, v)

    def _split_cell(self, o, k):
        sz, val = o.cells.pop(k)
        if isinstance(val, (Ptr, PtrIte)):
            if isinstance(val, Ptr) and is_c(val.off): val = self.addr(val)
            else: raise Unsupported("partial overwrite of symbolic pointer cell")
        for b in range(sz):
            if isinstance(val, (Undef, PV)): continue      # bytes become absent = undefined
            o.cells[k+b] = (1, (val >> (8*b)) & 0xff if is_c(val) else simp(z3.Extract(8*b+7, 8*b, val)))

    def memcpy(self, st, d, s_, n):
        n = self.use(st, n, 'memcpy length')
        if not is_c(n): n = self.concretize(st, n, 'memcpy length')
        if n == 0: return
        if d.obj == 0 or s_.obj == 0: raise Violation('null-deref', "memcpy with null pointer")
        if not is_c(d.off) or not is_c(s_.off): raise Unsupported("memcpy at symbolic offset")
        so = self.getobj(st, s_.obj); self.getobj(st, d.obj); do = st.wobj(d.obj)
        if do.const: raise Violation('write-const', f"memcpy into constant object {do.name}")
        self._bounds(st, so, s_.off, n, 'memcpy read'); self._bounds(st, do, d.off, n, 'memcpy write')
        def reg_of(o_, lo, hi):
            for r_ in o_.regions:
                if lo < r_.base + r_.esz*r_.cnt and hi > r_.base:
                    if lo >= r_.base and hi <= r_.base + r_.esz*r_.cnt: return r_
                    raise Unsupported("memory operation partially overlapping an array region")
            return None
        sr = reg_of(so, s_.off, s_.off + n); dr = reg_of(do, d.off, d.off + n)
        if sr or dr:
            # element-wise through load/store
            if n > 1 << 16: raise Unsupported("large memcpy on region object")
            step = (sr or dr).esz
            if (s_.off - (sr.base if sr else 0)) % step or (d.off - (dr.base if dr else 0)) % step or n % step:
                step = 1
            vals = [self.load(st, Ptr(s_.obj, s_.off+k), step) for k in range(0, n, step)]
            for i, v in enumerate(vals): self.store(st, Ptr(d.obj, d.off + i*step), step, v)
            return
        a, b = s_.off, s_.off + n
        # split cells straddling the copy boundaries in source (read-only view: compute pieces)
        items = []
        for k, c in so.cells.items():
            if k + c[0] <= a or k >= b: continue
            if k >= a and k + c[0] <= b: items.append((k, c)); continue
            sz, val = c
            if isinstance(val, (Ptr, PtrIte, Undef, PV)):
                if isinstance(val, Ptr) and is_c(val.off): val = self.addr(val)
                else: continue
            for x in range(sz):
                if a <= k + x < b:
                    items.append((k+x, (1, (val >> (8*x)) & 0xff if is_c(val) else simp(z3.Extract(8*x+7, 8*x, val)))))
        zs = [(max(x, a), min(y, b)) for x, y in so.zero if x < b and y > a]
        da, db = d.off, d.off + n
        for k in [k for k, c in do.cells.items() if k < db and k + c[0] > da]:
            if k < da or k + do.cells[k][0] > db: self._split_cell(do, k)
        for k in [k for k in do.cells if da <= k < db]: del do.cells[k]
        if do.zero:
            nz = []
            for x, y in do.zero:
                if y <= da or x >= db: nz.append((x, y))
                else:
                    if x < da: nz.append((x, da))
                    if y > db: nz.append((db, y))
            do.zero = nz
        for x, y in zs: do.zero.append((x - a + da, y - a + da))
        for k, c in items: do.cells[k - a + da] = c

    def memset(self, st, d, v, n):
        n = self.use(st, n, 'memset length')
        if not is_c(n): n = self.concretize(st, n, 'memset length')
        if n == 0: return
        if d.obj == 0: raise Violation('null-deref', "memset with null pointer")
        self.getobj(st, d.obj); do = st.wobj(d.obj)
        self._bounds(st, do, d.off, n, 'memset')
        r = None
        for r_ in do.regions:
            lo_, hi_ = r_.base, r_.base + r_.esz*r_.cnt
            if d.off < hi_ and d.off + n > lo_:
                if d.off >= lo_ and d.off + n <= hi_: r = r_
                else:
                    # split into the part before, inside and behind the region
                    if d.off < lo_: self.memset(st, d, v, lo_ - d.off)
                    a_ = max(d.off, lo_); b_ = min(d.off + n, hi_)
                    self.memset(st, Ptr(d.obj, a_), v, b_ - a_)
                    if d.off + n > hi_: self.memset(st, Ptr(d.obj, hi_), v, d.off + n - hi_)
                    return
        if r is not None:
            if not (is_c(v) and (d.off - r.base) % r.esz == 0 and n % r.esz == 0): raise Unsupported("memset on region")
            w = sum((v & 0xff) << (8*i) for i in range(r.esz))
            if n > 65536:
                if d.off == r.base and n == r.esz*r.cnt:
                    r.arr = z3.K(z3.BitVecSort(r.isort), z3.BitVecVal(w, r.esz*8)); r.over = {}; r._full = None; return
                raise Unsupported("large partial memset on region")
            for k in range(n // r.esz): r.put((d.off - r.base)//r.esz + k, w)
            return
        da, db = d.off, d.off + n
        for k in [k for k, c in do.cells.items() if k < db and k + c[0] > da]:
            if k < da or k + do.cells[k][0] > db: self._split_cell(do, k)
        for k in [k for k in do.cells if da <= k < db]: del do.cells[k]
        if is_c(v) and v & 0xff == 0: do.zero.append((da, db))
        else:
            if n > 1 << 16: raise Unsupported("large non-zero memset")
            for k in range(n): do.cells[da + k] = (1, v if is_c(v) else v)

    # ------------------------------------------------------------------ value uses
    def use(self, st, v, what):
        """v is about to influence control flow, an address or an observable: it must be defined"""
        if isinstance(v, PV):
            if self.check_poison:
                kind = 'ub-abs' if 'abs' in v.why else ('ub-shift' if 'shift' in v.why else 'ub-overflow')
                self.must(st, z3.Not(v.c), kind, f"{v.why} (result used as {what})")
            return v.v
        if isinstance(v, Undef):
            raise Violation('uninitialised', f"indeterminate value from {v.why} used as {what}")
        return v

    def concretize(self, st, v, what, limit=64):
        """fork the path over the feasible values of v (re-executes the current instruction in the forks)"""
        v = simp(v)
        if is_c(v): return v
        vals = []; 
        self._sync(st.pc); self.solver.push()
        try:
            while len(vals) <= limit:
                self.nq += 1
                r = self.solver.check()
                if r == z3.unknown: raise Inconclusive("solver unknown in concretize")
                if r != z3.sat: break
                x = self.solver.model().eval(v, model_completion=True).as_long(); vals.append(x)
                self.solver.add(v != x)
        finally:
            self.solver.pop()
        if len(vals) > limit: raise Unsupported(f"{what}: more than {limit} feasible values")
        if not vals: raise Inconclusive("infeasible path in concretize")
        for x in vals[1:]:
            o = st.fork(); of = o.frames[-1]; of.ip -= 1
            o.pc.append(v == x); o.model = None; self.work.append(o)
        self.assume(st, v == vals[0])
        return vals[0]

    def choose(self, st, n, label=''):
        """nondeterministic choice 0..n-1 made by a stub (forks re-execute the current call)"""
        if st.forced:
            k = st.forced.pop(0); st.x['_log'] = st.x.get('_log', ()) + (k,); return k
        log = st.x.get('_log', ())
        for k in range(1, n):
            o = st.fork(); o.frames[-1].ip -= 1; o.forced = list(log) + [k]; o.x['_log'] = (); self.work.append(o)
        st.x['_log'] = log + (0,)
        return 0

    def branch(self, st, c):
        """decide a z3 Bool condition, forking when both sides are feasible (for stubs; re-executes the call)"""
        c = z3.simplify(c)
        if z3.is_true(c): return True
        if z3.is_false(c): return False
        if st.forced:
            k = st.forced.pop(0); st.x['_log'] = st.x.get('_log', ()) + (k,)
            self.assume(st, c if k else z3.Not(c)); return bool(k)
        (t, mt), (f, mf) = self.feasible(st, c)
        log = st.x.get('_log', ())
        if t and f:
            o = st.fork(); o.frames[-1].ip -= 1; o.forced = list(log) + [0]; o.x['_log'] = (); self.work.append(o)
            st.x['_log'] = log + (1,); st.pc.append(c); st.model = mt; return True
        st.x['_log'] = log + (1 if t else 0,)
        st.pc.append(c if t else z3.Not(c)); return t

    # ------------------------------------------------------------------ operands
    def val(self, fr, tok, t):
        c = tok[0]
        if c == '%': return fr.env[tok]
        rt = self.M.resolve(t)
        if rt.k == 'int':
            if tok == 'true': return 1
            if tok == 'false': return 0
            if tok == 'undef' or tok == 'poison': return 0
            if tok == 'zeroinitializer': return 0
            if c == '-' or c.isdigit(): return int(tok) & mask(rt.a)
            if tok.startswith('ptrtoint'): return self.constexpr(tok) & mask(rt.a)
            raise Unsupported("int operand " + tok[:50])
        if tok == 'null': return NULL
        if tok in ('undef', 'poison', 'zeroinitializer'):
            if rt.k in ('ptr', 'func'): return NULL
            if rt.k == 'struct': return [self.val(fr, tok, f) for f in rt.a]
            if rt.k == 'array': return [self.val(fr, tok, rt.b) for _ in range(rt.a)]
            return None
        if c == '@':
            n = tok[1:].strip('"'); return Ptr(('g', self.M.aliases.get(n, n)), 0)
        if c == '!': return None
        if rt.k == 'struct' and c == '{':
            out = []
            for e in split_top(tok[1:tok.rindex('}')]):
                et, j = self.M.parse_type(e); out.append(self.val(fr, e[j:].strip(), et))
            return out
        return self.constexpr(tok)

    def addoff(self, off, v, w, scale):
        if is_c(v):
            v = sgn(v & mask(w), w)
            if is_c(off): return off + v*scale
            return simp(off + z3.BitVecVal(v*scale, 64))
        v64 = z3.SignExt(64 - w, v) if w < 64 else v
        return simp(bv(off, 64) + v64 * z3.BitVecVal(scale, 64))

    # ------------------------------------------------------------------ arithmetic
    def binop(self, st, o, w, x, y, flags):
        pc_ = None; why = None
        if isinstance(x, (PV, Undef)) or isinstance(y, (PV, Undef)):
            if isinstance(x, Undef): return x
            if isinstance(y, Undef): return y
            if isinstance(x, PV): pc_, why, x = x.c, x.why, x.v
            if isinstance(y, PV):
                pc_ = y.c if pc_ is None else z3.Or(pc_, y.c); why = why or y.why; y = y.v
        if isinstance(x, (Ptr, PtrIte)) or isinstance(y, (Ptr, PtrIte)):
            raise Unsupported("arithmetic on pointer value")
        if is_c(x) and is_c(y):
            m = mask(w)
            if o == 'add': r = (x + y) & m
            elif o == 'sub': r = (x - y) & m
            elif o == 'mul': r = (x * y) & m
            elif o == 'and': r = x & y
            elif o == 'or': r = x | y
            elif o == 'xor': r = x ^ y
            elif o == 'shl': r = (x << y) & m if y < w else 0
            elif o == 'lshr': r = x >> y if y < w else 0
            elif o == 'ashr': r = (sgn(x, w) >> min(y, w-1)) & m
            elif o in ('udiv', 'urem', 'sdiv', 'srem'):
                if y == 0: raise Violation('div-zero', "division by zero")
                if o == 'udiv': r = x // y
                elif o == 'urem': r = x % y
                else:
                    sx, sy = sgn(x, w), sgn(y, w)
                    q = abs(sx) // abs(sy); q = -q if (sx < 0) != (sy < 0) else q
                    r = (q if o == 'sdiv' else sx - q*sy) & m
            else: raise Unsupported(o)
            bad = False
            if flags:
                if 'nsw' in flags and o in ('add', 'sub', 'mul'):
                    sx, sy = sgn(x, w), sgn(y, w)
                    sr = sx + sy if o == 'add' else (sx - sy if o == 'sub' else sx * sy)
                    bad = not (-(1 << (w-1)) <= sr < (1 << (w-1)))
                if 'nuw' in flags and o in ('add', 'sub', 'mul'):
                    ur = x + y if o == 'add' else (x - y if o == 'sub' else x * y)
                    bad = bad or not (0 <= ur <= m)
            if o in ('shl', 'lshr', 'ashr') and y >= w: bad = True
            if bad:
                r = PV(r, z3.BoolVal(True), f"signed/unsigned overflow or oversized shift in '{o}'")
            if pc_ is not None: r = PV(r.v if isinstance(r, PV) else r, pc_ if not bad else z3.BoolVal(True), why)
            return r
        X, Y = bv(x, w), bv(y, w)
        pz = None
        if flags and self.check_poison:
            if 'nsw' in flags:
                if o == 'add': pz = z3.Not(z3.And(z3.BVAddNoOverflow(X, Y, True), z3.BVAddNoUnderflow(X, Y)))
                elif o == 'sub': pz = z3.Not(z3.And(z3.BVSubNoOverflow(X, Y), z3.BVSubNoUnderflow(X, Y, True)))
                elif o == 'mul': pz = z3.Not(z3.And(z3.BVMulNoOverflow(X, Y, True), z3.BVMulNoUnderflow(X, Y)))
            if 'nuw' in flags:
                q = None
                if o == 'add': q = z3.Not(z3.BVAddNoOverflow(X, Y, False))
                elif o == 'sub': q = z3.ULT(X, Y)
                elif o == 'mul': q = z3.Not(z3.BVMulNoOverflow(X, Y, False))
                if q is not None: pz = q if pz is None else z3.Or(pz, q)
            if pz is not None: why = why or f"integer overflow in '{o} {' '.join(sorted(flags))} i{w}'"
        if o == 'add': r = X + Y
        elif o == 'sub': r = X - Y
        elif o == 'mul': r = X * Y
        elif o == 'and': r = X & Y
        elif o == 'or': r = X | Y
        elif o == 'xor': r = X ^ Y
        elif o in ('shl', 'lshr', 'ashr'):
            r = X << Y if o == 'shl' else (z3.LShR(X, Y) if o == 'lshr' else X >> Y)
            if not is_c(y) and self.check_poison:
                q = z3.UGE(Y, w); pz = q if pz is None else z3.Or(pz, q); why = why or f"shift by >= {w}"
            elif is_c(y) and y >= w: pz = z3.BoolVal(True); why = why or f"shift by >= {w}"
        elif o in ('udiv', 'urem', 'sdiv', 'srem'):
            self.must(st, Y != 0, 'div-zero', "division by zero")
            if o == 'udiv': r = z3.UDiv(X, Y)
            elif o == 'urem': r = z3.URem(X, Y)
            elif o == 'sdiv': r = X / Y
            else: r = z3.SRem(X, Y)
        else: raise Unsupported(o)
        r = simp(r)
        if pz is not None:
            pz = z3.simplify(pz)
            if z3.is_false(pz): pz = None
        if pz is not None: pc_ = pz if pc_ is None else z3.Or(pc_, pz)
        if pc_ is not None: return PV(r, pc_, why)
        return r

    def icmp(self, st, pred, t, x, y):
        rt = self.M.resolve(t)
        if isinstance(x, Undef): return x
        if isinstance(y, Undef): return y
        if rt.k in ('ptr', 'func') or isinstance(x, (Ptr, PtrIte)) or isinstance(y, (Ptr, PtrIte)):
            return self.ptrcmp(st, pred, x, y)
        w = rt.a
        pc_ = None; why = None
        if isinstance(x, PV): pc_, why, x = x.c, x.why, x.v
        if isinstance(y, PV): pc_ = y.c if pc_ is None else z3.Or(pc_, y.c); why = why or y.why; y = y.v
        if is_c(x) and is_c(y):
            sx, sy = sgn(x, w), sgn(y, w)
            r = int({'eq': x == y, 'ne': x != y, 'ugt': x > y, 'uge': x >= y, 'ult': x < y, 'ule': x <= y,
                     'sgt': sx > sy, 'sge': sx >= sy, 'slt': sx < sy, 'sle': sx <= sy}[pred])
        else:
            X, Y = bv(x, w), bv(y, w)
            c = {'eq': lambda: X == Y, 'ne': lambda: X != Y, 'ugt': lambda: z3.UGT(X, Y), 'uge': lambda: z3.UGE(X, Y),
                 'ult': lambda: z3.ULT(X, Y), 'ule': lambda: z3.ULE(X, Y), 'sgt': lambda: X > Y, 'sge': lambda: X >= Y,
                 'slt': lambda: X < Y, 'sle': lambda: X <= Y}[pred]()
            r = simp(z3.If(c, z3.BitVecVal(1, 1), z3.BitVecVal(0, 1)))
        if pc_ is not None: return PV(r, pc_, why)
        return r

    def ptrcmp(self, st, pred, x, y):
        if isinstance(x, PtrIte):
            a = self.ptrcmp(st, pred, x.a, y); b = self.ptrcmp(st, pred, x.b, y)
            return simp(z3.If(x.c, bv(a, 1), bv(b, 1)))
        if isinstance(y, PtrIte):
            a = self.ptrcmp(st, pred, x, y.a); b = self.ptrcmp(st, pred, x, y.b)
            return simp(z3.If(y.c, bv(a, 1), bv(b, 1)))
        if is_c(x): x = self.int2ptr(x)
        if is_c(y): y = self.int2ptr(y)
        if not (isinstance(x, Ptr) and isinstance(y, Ptr)): raise Unsupported(f"pointer comparison of {x!r} and {y!r}")
        if x.obj == y.obj:
            if is_c(x.off) and is_c(y.off):
                a, b = x.off, y.off
                return int({'eq': a == b, 'ne': a != b, 'ugt': a > b, 'uge': a >= b, 'ult': a < b, 'ule': a <= b,
                            'sgt': a > b, 'sge': a >= b, 'slt': a < b, 'sle': a <= b}[pred])
            A, B = bv(x.off, 64), bv(y.off, 64)
            c = {'eq': A == B, 'ne': A != B, 'ugt': A > B, 'uge': A >= B, 'ult': A < B, 'ule': A <= B}[pred]
            return simp(z3.If(c, z3.BitVecVal(1, 1), z3.BitVecVal(0, 1)))
        if pred == 'eq': return 0
        if pred == 'ne': return 1
        if not (is_c(x.off) and is_c(y.off)): raise Unsupported("ordering of pointers with symbolic offsets into different objects")
        if x.obj != 0 and y.obj != 0: self.ptr_order.append((x, y))
        ax, ay = self.addr(x), self.addr(y)
        return int({'ugt': ax > ay, 'uge': ax >= ay, 'ult': ax < ay, 'ule': ax <= ay}[pred])

    def cast(self, st, o, ft, x, tt):
        M = self.M
        if o == 'bitcast' or o == 'addrspacecast': return x
        if isinstance(x, Undef): return x
        if o == 'ptrtoint':
            if is_c(x): return x
            if isinstance(x, PtrIte): raise Unsupported("ptrtoint of guarded pointer")
            if not is_c(x.off):
                return simp(z3.BitVecVal(self.addr(Ptr(x.obj, 0)), 64) + x.off)
            return self.addr(x) & mask(M.resolve(tt).a)
        if o == 'inttoptr':
            if isinstance(x, (Ptr, PtrIte)): return x
            x = self.use(st, x, 'inttoptr operand')
            if not is_c(x):
                x = simp(x)
                if not is_c(x):
                    # base<<36 + symbolic offset produced by ptrtoint above
                    hi = simp(z3.Extract(63, 36, x))
                    if is_c(hi):
                        p = self.int2ptr(hi << 36); return Ptr(p.obj, simp(z3.ZeroExt(28, z3.Extract(35, 0, x))))
                    raise Unsupported("inttoptr of symbolic value")
            return self.int2ptr(x)
        fw = M.resolve(ft).a; tw = M.resolve(tt).a
        pv = None
        if isinstance(x, PV): pv, x = x, x.v
        if is_c(x):
            if o == 'zext': r = x
            elif o == 'sext': r = sgn(x, fw) & mask(tw)
            elif o == 'trunc': r = x & mask(tw)
            else: raise Unsupported(o)
        elif o == 'zext': r = simp(z3.ZeroExt(tw - fw, x))
        elif o == 'sext': r = simp(z3.SignExt(tw - fw, x))
        elif o == 'trunc': r = simp(z3.Extract(tw - 1, 0, x))
        else: raise Unsupported(o)
        return PV(r, pv.c, pv.why) if pv is not None else r

    # ------------------------------------------------------------------ running
    def run(self, fname, args, st=None, on_done=None):
        """run function to completion on every feasible path; returns list of PathResult"""
        st = st or State()
        f = self.M.funcs[self.M.aliases.get(fname, fname)]
        base = len(st.frames)
        fr = Frame(f)
        for (t, n), a in zip(f.params, args): fr.env[n] = a
        fr.bb = f.entry; fr.code = self.code(f, f.entry)
        st.frames.append(fr)
        self.work = [st]; done = []
        while self.work:
            s = self.work.pop()
            self.npaths += 1
            if self.npaths > self.max_paths: raise Inconclusive("path budget exceeded")
            try:
                while True:
                    try:
                        r = PathResult(s, 'ret', self.exec_path(s, base)); break
                    except CxxThrow as ex:
                        if not self.unwind(s, ex, base):
                            r = PathResult(s, 'throw', ex); break
            except Violation as e:
                if s.frames and not getattr(e, 'where', None):
                    fr_ = s.frames[-1]
                    e.where = [f"{f_.fn.name}:{f_.bb}:{f_.ip-1}" for f_ in s.frames[-4:]]
                    try: e.ins = fr_.fn.blocks[fr_.bb][fr_.ip-1]
                    except Exception: e.ins = ''
                r = PathResult(s, 'violation', e)
            except Budget as e:
                r = PathResult(s, 'budget', (e.args[0] if e.args else None))
            except Abort as e:
                r = PathResult(s, 'abort', e)
            if r.kind != 'ret': del s.frames[base:]
            done.append(r)
            if on_done: on_done(r)
        return done

    def run1(self, fname, args, st=None):
        """run a function expected to have exactly one path and to return; -> (state, value)"""
        rs = self.run(fname, args, st)
        if len(rs) != 1 or rs[0].kind != 'ret': raise Inconclusive(f"{fname}: expected one returning path, got {rs!r}")
        return rs[0].st, rs[0].val

    def code(self, f, bb):
        c = f.dec.get(bb)
        if c is None:
            c = f.dec[bb] = [decode(self.M, ins) for ins in f.blocks[bb]]
        return c

    def goto(self, fr, lbl):
        fr.prev = fr.bb; fr.bb = lbl; fr.ip = 0; fr.code = self.code(fr.fn, lbl)

    def unwind(self, st, ex, base):
        while len(st.frames) > base:
            fr = st.frames[-1]
            if fr.inv is not None:
                lp = fr.inv[1]; fr.inv = None; fr.exc = ex
                self.goto(fr, lp)
                return True
            self.pop_frame(st)
        return False

    def pop_frame(self, st):
        fr = st.frames.pop()
        for k in fr.allocas:
            o = st.objs.get(k)
            if o is not None:
                o = st.wobj(k); o.freed = True; o.cells = {}; o.zero = []

    def ti_id(self, ti):
        k = (ti.obj, ti.off)
        if k not in self.tiids: self.tiids[k] = len(self.tiids) + 1
        return self.tiids[k]

    def ti_derives(self, st, ti, base):
        seen = 0
        while seen < 32:
            seen += 1
            if ti == base: return True
            nm = ti.obj[1] if isinstance(ti.obj, tuple) else None
            if nm in STD_TI_BASE: ti = Ptr(('g', STD_TI_BASE[nm]), 0); continue
            o = self.getobj(st, ti.obj)
            c = o.cells.get(16)
            if c is None or not isinstance(c[1], Ptr): return False
            ti = c[1]
        return False

    def call_function(self, st, name, argv, dst):
        f = self.M.funcs[name]; nf = Frame(f)
        for (t, n), a in zip(f.params, argv): nf.env[n] = a
        nf.bb = f.entry; nf.ret_to = dst; nf.code = self.code(f, f.entry)
        st.frames.append(nf)
        if len(st.frames) > 400: raise Budget('depth')
        self.called.add(name)

    def exec_path(self, st, base):
        M = self.M; resolve = M.resolve; layout = M.layout
        while True:
            fr = st.frames[-1]
            d = fr.code[fr.ip]; fr.ip += 1
            self.steps += 1; st.steps += 1
            if st.steps > self.max_steps: raise Budget('steps')
            if self.deadline is not None and (self.steps & 1023) == 0 and time.time() > self.deadline: raise Budget('deadline')
            op = d[0]
            if op == 'bin':
                _, dst, o, w, a, b, flags = d
                x = fr.env[a] if a[0] == '%' else self.val(fr, a, T('int', w))
                y = fr.env[b] if b[0] == '%' else self.val(fr, b, T('int', w))
                fr.env[dst] = self.binop(st, o, w, x, y, flags)
            elif op == 'load':
                _, dst, t, p = d
                ptr = self.use(st, self.val(fr, p, I8P), 'address of load')
                rt = resolve(t)
                if rt.k == 'ptr' or rt.k == 'func':
                    v = self.load(st, ptr, 8, True)
                    if is_c(v): v = self.int2ptr(v)
                    elif not isinstance(v, (Ptr, PtrIte, Undef)): v = self.cast(st, 'inttoptr', None, v, None)
                    fr.env[dst] = v
                elif rt.k == 'int':
                    v = self.load(st, ptr, layout(rt)[0])
                    if isinstance(v, Ptr): v = self.addr(v) if is_c(v.off) else self.cast(st, 'ptrtoint', None, v, T('int', 64))
                    if rt.a < 8 and not isinstance(v, (Undef, PV)):      # i1 stored as a byte
                        v = v & mask(rt.a) if is_c(v) else simp(z3.Extract(rt.a-1, 0, v))
                    fr.env[dst] = v
                elif rt.k in ('struct', 'array'):
                    fr.env[dst] = self.load_agg(st, ptr, rt)
                else: raise Unsupported("load of " + repr(rt))
            elif op == 'store':
                _, t, v, p = d
                ptr = self.use(st, self.val(fr, p, I8P), 'address of store')
                val = self.val(fr, v, t)
                rt = resolve(t)
                if isinstance(val, list): self.store_agg(st, ptr, rt, val)
                else:
                    n = layout(rt)[0]
                    if rt.k == 'int' and rt.a < 8 and not isinstance(val, (Undef, PV)) and not is_c(val): val = z3.ZeroExt(8 - rt.a, val)
                    self.store(st, ptr, n, val)
            elif op == 'gep':
                _, dst, bt, base_, idxs = d
                p = self.val(fr, base_, I8P)
                if isinstance(p, Undef): self.use(st, p, 'base of address computation')
                if isinstance(p, PtrIte):
                    fr.env[dst] = PtrIte(p.c, self.gep(st, fr, p.a, bt, idxs), self.gep(st, fr, p.b, bt, idxs))
                else:
                    if is_c(p): p = self.int2ptr(p)
                    fr.env[dst] = self.gep(st, fr, p, bt, idxs)
            elif op == 'icmp':
                _, dst, pred, t, a, b = d
                fr.env[dst] = self.icmp(st, pred, t, self.val(fr, a, t), self.val(fr, b, t))
            elif op == 'cast':
                _, dst, o, ft, v, tt = d
                fr.env[dst] = self.cast(st, o, ft, self.val(fr, v, ft), tt)
            elif op == 'br':
                self.goto(fr, d[1])
            elif op == 'condbr':
                _, c, tl, fl = d
                cv = self.use(st, self.val(fr, c, I1), 'branch condition')
                if not is_c(cv): cv = simp(cv)
                if is_c(cv): self.goto(fr, tl if cv else fl)
                else:
                    ct = cv == 1
                    if self.lazy_branches: (t_ok, mt), (f_ok, mf) = (True, None), (True, None)   # both sides taken unchecked; the caller decides feasibility at the end
                    else: (t_ok, mt), (f_ok, mf) = self.feasible(st, ct)
                    if t_ok and f_ok:
                        o = st.fork(); of = o.frames[-1]
                        o.pc.append(z3.Not(ct)); o.model = mf; self.goto(of, fl)
                        self.work.append(o)
                    if t_ok:
                        st.pc.append(ct); st.model = mt; self.goto(fr, tl)
                    elif f_ok:
                        st.pc.append(z3.Not(ct)); st.model = mf; self.goto(fr, fl)
                    else: raise Inconclusive("infeasible path condition")
            elif op == 'phi':
                code = fr.code; vals = []; k = fr.ip - 1; prev = fr.prev
                while code[k][0] == 'phi':
                    _, dst, t, inc = code[k]
                    vals.append((dst, self.val(fr, inc[prev], t))); k += 1
                for dst, v in vals: fr.env[dst] = v
                fr.ip = k
            elif op == 'call' or op == 'invoke':
                self.do_call(st, fr, d)
            elif op == 'ret':
                _, t, v = d
                rv = self.val(fr, v, t) if v is not None else None
                self.pop_frame(st)
                if len(st.frames) <= base: return rv
                cf = st.frames[-1]
                if fr.ret_to: cf.env[fr.ret_to] = rv
                if cf.inv is not None:
                    nl = cf.inv[0]; cf.inv = None; self.goto(cf, nl)
            elif op == 'select':
                _, dst, c, t, a, b = d
                cv = self.val(fr, c, I1); x = self.val(fr, a, t); y = self.val(fr, b, t)
                fr.env[dst] = self.select(st, cv, t, x, y)
            elif op == 'switch':
                _, t, v, dflt, cases = d
                x = self.use(st, self.val(fr, v, t), 'switch operand')
                if not is_c(x): x = simp(x)
                if is_c(x):
                    tgt = dflt
                    for cv, cl in cases:
                        if cv == x: tgt = cl; break
                    self.goto(fr, tgt)
                else:
                    alts = []
                    for cv, cl in cases:
                        c = x == cv
                        ok, m = self.sat(st, c)
                        if ok: alts.append((c, cl, m))
                    dc = z3.And([x != cv for cv, _ in cases])
                    ok, m = self.sat(st, dc)
                    if ok: alts.append((dc, dflt, m))
                    if not alts: raise Inconclusive("infeasible switch")
                    for c, cl, m in alts[1:]:
                        o = st.fork(); of = o.frames[-1]
                        o.pc.append(c); o.model = m; self.goto(of, cl); self.work.append(o)
                    c, cl, m = alts[0]
                    st.pc.append(c); st.model = m; self.goto(fr, cl)
            elif op == 'alloca':
                _, dst, t, cnt = d
                n = 1
                if cnt is not None:
                    n = self.use(st, self.val(fr, cnt[1], cnt[0]), 'alloca count')
                    if not is_c(n): raise Unsupported("symbolic alloca")
                p = st.alloc(layout(t)[0]*n, 'alloca:' + fr.fn.name[:40] + dst)
                fr.allocas.append(p.obj); fr.env[dst] = p
            elif op == 'extractvalue':
                _, dst, v, idx = d
                a = fr.env[v]
                for i in idx: a = a[i]
                fr.env[dst] = a
            elif op == 'insertvalue':
                _, dst, at, agg, t, v, idx = d
                a = self.val(fr, agg, at)
                a = self._agg_copy(a)
                tgt = a
                for i in idx[:-1]: tgt = tgt[i]
                tgt[idx[-1]] = self.val(fr, v, t); fr.env[dst] = a
            elif op == 'landingpad':
                _, dst, clauses = d
                ex = fr.exc; sel = 0
                for kind, tok in clauses:
                    if kind == 'catch':
                        if tok == 'null': sel = 0x7fffffff; break
                        ti = self.val(fr, tok, I8P)
                        if self.ti_derives(st, ex.tinfo, ti): sel = self.ti_id(ti); break
                fr.env[dst] = [ex.obj, sel]
            elif op == 'resume':
                raise CxxThrow(fr.exc.obj, fr.exc.tinfo, fr.exc.dtor)
            elif op == 'unreachable':
                raise Violation('unreachable', f"reached 'unreachable' in {fr.fn.name}")
            elif op == 'freeze':
                _, dst, t, v = d
                x = self.val(fr, v, t)
                if isinstance(x, PV): x = x.v
                if isinstance(x, Undef): x = 0
                fr.env[dst] = x
            else:
                raise Unsupported("instr " + repr(d)[:100])

    def _agg_copy(self, a):
        return [self._agg_copy(x) if isinstance(x, list) else x for x in a]

    def select(self, st, cv, t, x, y):
        cv = self.use(st, cv, 'select condition')
        if not is_c(cv): cv = simp(cv)
        if is_c(cv): return x if cv else y
        c = cv == 1
        if isinstance(x, list): return [self.select(st, cv, None, a, b) for a, b in zip(x, y)]
        if isinstance(x, (Ptr, PtrIte)) or isinstance(y, (Ptr, PtrIte)):
            if is_c(x): x = self.int2ptr(x)
            if is_c(y): y = self.int2ptr(y)
            return PtrIte(c, x, y)
        if isinstance(x, Undef) and isinstance(y, Undef): return x
        if isinstance(x, Undef) or isinstance(y, Undef):
            # value is indeterminate on one side only: decide the side now
            if self.branch_inline(st, c): return x
            return y
        px = x.c if isinstance(x, PV) else None; py = y.c if isinstance(y, PV) else None
        why = (x.why if px is not None else None) or (y.why if py is not None else None)
        if px is not None: x = x.v
        if py is not None: y = y.v
        w = x.size() if not is_c(x) else (y.size() if not is_c(y) else self.M.resolve(t).a)
        r = simp(z3.If(c, bv(x, w), bv(y, w)))
        if px is None and py is None: return r
        pc_ = z3.simplify(z3.If(c, px if px is not None else z3.BoolVal(False), py if py is not None else z3.BoolVal(False)))
        if z3.is_false(pc_): return r
        return PV(r, pc_, why)

    def branch_inline(self, st, c):
        """decide c by forking without re-execution is not possible mid-instruction: fork with re-execution"""
        (t, mt), (f, mf) = self.feasible(st, c)
        if t and f:
            o = st.fork(); o.frames[-1].ip -= 1; o.pc.append(z3.Not(c)); o.model = mf; self.work.append(o)
            st.pc.append(c); st.model = mt; return True
        st.pc.append(c if t else z3.Not(c)); return t

    def gep(self, st, fr, p, bt, idxs):
        M = self.M
        if isinstance(p, PtrIte): return PtrIte(p.c, self.gep(st, fr, p.a, bt, idxs), self.gep(st, fr, p.b, bt, idxs))
        off = p.off; t = bt; first = True
        for (it, iv) in idxs:
            v = self.use(st, self.val(fr, iv, it), 'index of address computation')
            if first:
                sz = M.layout(t)[0] if M.resolve(t).k != 'func' else 1; first = False
                off = self.addoff(off, v, M.resolve(it).a, sz)
            else:
                rt = M.resolve(t)
                if rt.k == 'struct':
                    fo, ft = M.field_off(rt, v); off = self.addoff(off, fo, 64, 1); t = ft
                elif rt.k == 'array':
                    if rt.a > 1:       # index into a fixed-size array: must stay inside it (one-past allowed for pointer formation)
                        w_ = M.resolve(it).a
                        if is_c(v):
                            if sgn(v & mask(w_), w_) < 0 or sgn(v & mask(w_), w_) > rt.a:
                                raise Violation('out-of-bounds', f"index {sgn(v & mask(w_), w_)} into a {rt.a}-element array")
                        else:
                            self.must(st, z3.ULE(v, rt.a), 'out-of-bounds', f"index into a {rt.a}-element array out of range")
                    sz = M.layout(rt.b)[0]; off = self.addoff(off, v, M.resolve(it).a, sz); t = rt.b
                else: raise Unsupported("gep into " + repr(rt))
        return Ptr(p.obj, off)

    def load_agg(self, st, p, rt):
        M = self.M
        if rt.k == 'struct':
            return [self._load_field(st, Ptr(p.obj, p.off + M.field_off(rt, i)[0]), M.resolve(f)) for i, f in enumerate(rt.a)]
        esz = M.layout(rt.b)[0]
        return [self._load_field(st, Ptr(p.obj, p.off + i*esz), M.resolve(rt.b)) for i in range(rt.a)]
    def _load_field(self, st, p, ft):
        if ft.k in ('struct', 'array'): return self.load_agg(st, p, ft)
        if ft.k in ('ptr', 'func'):
            v = self.load(st, p, 8, True); return self.int2ptr(v) if is_c(v) else v
        return self.load(st, p, self.M.layout(ft)[0])
    def store_agg(self, st, p, rt, val):
        M = self.M
        if rt.k == 'struct':
            for i, f in enumerate(rt.a):
                q = Ptr(p.obj, p.off + M.field_off(rt, i)[0]); ft = M.resolve(f)
                if isinstance(val[i], list): self.store_agg(st, q, ft, val[i])
                elif val[i] is not None: self.store(st, q, M.layout(ft)[0], val[i])
            return
        esz = M.layout(rt.b)[0]
        for i in range(rt.a):
            q = Ptr(p.obj, p.off + i*esz); ft = M.resolve(rt.b)
            if isinstance(val[i], list): self.store_agg(st, q, ft, val[i])
            elif val[i] is not None: self.store(st, q, esz, val[i])

    # ------------------------------------------------------------------ calls
    def do_call(self, st, fr, d):
        M = self.M
        op, dst, rett, callee, args = d[:5]
        argv = []
        for t, a, noundef, bvt in args:
            v = self.val(fr, a, t)
            if bvt is not None:
                n = M.layout(bvt)[0]; cp = st.alloc(n, 'byval'); self.memcpy(st, cp, v, n); v = cp
                st.frames[-1].allocas.append(cp.obj)
            argv.append(v)
        if callee[0] == '%':
            fp = self.use(st, fr.env[callee], 'called function pointer')
            if isinstance(fp, PtrIte): raise Unsupported("indirect call through guarded pointer")
            if is_c(fp): fp = self.int2ptr(fp)
            if fp.obj == 0: raise Violation('null-deref', "call through null function pointer")
            name = self.getobj(st, fp.obj).func
            if name is None: raise Violation('bad-pointer', f"indirect call to non-function {fp!r}")
        else:
            name = callee[1:].strip('"')
        name = M.aliases.get(name, name)
        if self.trace: print('  ' * len(st.frames), 'call', name[:100])
        if op == 'invoke': fr.inv = (d[5], d[6])
        stub = self.stubs.get(name)
        if stub is None and self.prefix_stubs:
            for pre, fn_ in self.prefix_stubs:
                if name.startswith(pre): stub = fn_; break
        if stub is not None:
            # stubs work on plain pointers: decide the guard of a guarded pointer argument first (forks, re-executing the call)
            for i_, a_ in enumerate(argv):
                while isinstance(a_, PtrIte):
                    a_ = a_.a if self.branch_inline(st, a_.c) else a_.b
                    argv[i_] = a_
            st.x['_log'] = (); st.x['_callee'] = name
            r = stub(self, st, argv)
            if dst: fr.env[dst] = r
            if op == 'invoke' and st.frames and st.frames[-1] is fr and fr.inv is not None:
                nl = fr.inv[0]; fr.inv = None; self.goto(fr, nl)
            return
        if name.startswith('llvm.'):
            r = self.intrinsic(st, fr, name, argv, dst)
            if op == 'invoke': nl = fr.inv[0]; fr.inv = None; self.goto(fr, nl)
            return
        if name in M.funcs:
            for (t, a, noundef, bvt), v in zip(args, argv):
                if noundef and isinstance(v, Undef): self.use(st, v, f"noundef argument of {name[:60]}")
            self.call_function(st, name, argv, dst)
            return
        raise Unsupported("call to external function without model: " + name)

    def intrinsic(self, st, fr, name, argv, dst):
        if name.startswith(('llvm.lifetime', 'llvm.experimental.noalias', 'llvm.dbg', 'llvm.invariant', 'llvm.prefetch', 'llvm.stackrestore', 'llvm.var.annotation')): return
        if name == 'llvm.assume':
            c = argv[0]
            if not is_c(c) and not isinstance(c, (PV, Undef)): self.must(st, c == 1, 'assume-violated', "llvm.assume condition can be false")
            return
        if name.startswith('llvm.expect') or name.startswith('llvm.ptr.annotation') or name.startswith('llvm.launder') or name.startswith('llvm.strip'): fr.env[dst] = argv[0]; return
        if name == 'llvm.stacksave': fr.env[dst] = NULL; return
        if name == 'llvm.eh.typeid.for': fr.env[dst] = self.ti_id(argv[0]); return
        if name.startswith(('llvm.memcpy', 'llvm.memmove')):
            self.memcpy(st, self.use(st, argv[0], 'memcpy dest'), self.use(st, argv[1], 'memcpy src'), argv[2]); return
        if name.startswith('llvm.memset'):
            self.memset(st, self.use(st, argv[0], 'memset dest'), self.use(st, argv[1], 'memset value'), argv[2]); return
        if name == 'llvm.trap': raise Abort('trap')
        if name.startswith('llvm.load.relative'):
            p = self.use(st, argv[0], 'load.relative base'); off = self.use(st, argv[1], 'load.relative offset')
            q = Ptr(p.obj, self.addoff(p.off, off, 64, 1))
            rel = self.load(st, q, 4)
            if isinstance(rel, RelPtr): fr.env[dst] = rel.target; return
            rel = self.use(st, rel, 'relative table entry')
            if not is_c(rel): raise Unsupported("symbolic relative table entry")
            fr.env[dst] = self.int2ptr((self.addr(p) + sgn(rel, 32)) & mask(64)); return
        base = name.split('.')[1]
        try: w = int(name.rsplit('.i', 1)[1])
        except (IndexError, ValueError): raise Unsupported("intrinsic " + name)
        if base in ('umax', 'umin', 'smax', 'smin'):
            x, y = argv[0], argv[1]
            if isinstance(x, Undef) or isinstance(y, Undef): fr.env[dst] = x if isinstance(x, Undef) else y; return
            pv = [a for a in (x, y) if isinstance(a, PV)]
            x = x.v if isinstance(x, PV) else x; y = y.v if isinstance(y, PV) else y
            if is_c(x) and is_c(y):
                kx, ky = (sgn(x, w), sgn(y, w)) if base[0] == 's' else (x, y)
                r = x if ((kx >= ky) == (base[1:] == 'max')) else y
            else:
                X, Y = bv(x, w), bv(y, w)
                c = {'umax': z3.UGE(X, Y), 'umin': z3.ULE(X, Y), 'smax': X >= Y, 'smin': X <= Y}[base]
                r = simp(z3.If(c, X, Y))
            fr.env[dst] = PV(r, z3.Or([p.c for p in pv]), pv[0].why) if pv else r
            return
        if base == 'abs':
            x = argv[0]
            if isinstance(x, Undef): fr.env[dst] = x; return
            pv = x if isinstance(x, PV) else None
            if pv: x = x.v
            if is_c(x):
                r = abs(sgn(x, w)) & mask(w)
                bad = z3.BoolVal(x == 1 << (w-1))
            else:
                r = simp(z3.If(x < 0, -x, x)); bad = x == (1 << (w-1))
            c = None
            if argv[1] == 1:
                c = z3.simplify(bad)
                if z3.is_false(c): c = None
            if pv is not None: c = pv.c if c is None else z3.Or(c, pv.c)
            fr.env[dst] = PV(r, c, (pv.why if pv else None) or f"abs of the most negative i{w} value (std::abs(INT_MIN))") if c is not None else r
            return
        if base in ('ctlz', 'cttz', 'ctpop', 'bswap', 'fshl', 'fshr', 'usub', 'uadd', 'sadd', 'ssub', 'smul', 'umul'):
            x = self.use(st, argv[0], name)
            if base == 'bswap':
                n = w // 8
                if is_c(x): fr.env[dst] = int.from_bytes(x.to_bytes(n, 'little'), 'big')
                else: fr.env[dst] = simp(z3.Concat(*[z3.Extract(8*i+7, 8*i, x) for i in range(n)]))
                return
            if base in ('uadd', 'usub', 'umul', 'sadd', 'ssub', 'smul') and 'with.overflow' in name:
                y = self.use(st, argv[1], name); o = base[1:]
                X, Y = bv(x, w), bv(y, w)
                if is_c(x) and is_c(y):
                    if base[0] == 'u':
                        full = x + y if o == 'add' else (x - y if o == 'sub' else x * y); ov = int(not 0 <= full <= mask(w))
                    else:
                        sx, sy = sgn(x, w), sgn(y, w); full = sx + sy if o == 'add' else (sx - sy if o == 'sub' else sx * sy)
                        ov = int(not -(1 << (w-1)) <= full < (1 << (w-1)))
                    fr.env[dst] = [full & mask(w), ov]; return
                r = X + Y if o == 'add' else (X - Y if o == 'sub' else X * Y)
                if base[0] == 'u':
                    ok = z3.BVAddNoOverflow(X, Y, False) if o == 'add' else (z3.UGE(X, Y) if o == 'sub' else z3.BVMulNoOverflow(X, Y, False))
                else:
                    ok = (z3.And(z3.BVAddNoOverflow(X, Y, True), z3.BVAddNoUnderflow(X, Y)) if o == 'add' else
                          z3.And(z3.BVSubNoOverflow(X, Y), z3.BVSubNoUnderflow(X, Y, True)) if o == 'sub' else
                          z3.And(z3.BVMulNoOverflow(X, Y, True), z3.BVMulNoUnderflow(X, Y)))
                fr.env[dst] = [simp(r), simp(z3.If(ok, z3.BitVecVal(0, 1), z3.BitVecVal(1, 1)))]; return
            if base in ('ctlz', 'cttz', 'ctpop') and is_c(x):
                if base == 'ctpop': fr.env[dst] = bin(x).count('1')
                elif base == 'ctlz': fr.env[dst] = w - x.bit_length()
                else: fr.env[dst] = (x & -x).bit_length() - 1 if x else w
                return
        raise Unsupported("intrinsic " + name)

    # ------------------------------------------------------------------ helpers for harnesses and stubs
    def read_bytes(self, st, p, n):
        return [self.load(st, Ptr(p.obj, p.off + k), 1) for k in range(n)]
    def read_cstr(self, st, p, limit=4096):
        out = bytearray(); k = 0
        while True:
            b = self.use(st, self.load(st, Ptr(p.obj, p.off + k), 1), 'C string byte')
            if not is_c(b): raise Unsupported("symbolic byte in C string")
            if b == 0: return bytes(out)
            out.append(b); k += 1
            if k > limit: raise Unsupported("unterminated C string")
    def write_bytes(self, st, p, data):
        for k, b in enumerate(data): self.store(st, Ptr(p.obj, p.off + k), 1, b)
    def alloc_bytes(self, st, data, name='bytes'):
        p = st.alloc(len(data), name); o = st.objs[p.obj]
        for k, b in enumerate(data): o.cells[k] = (1, b)
        return p
    def alloc_cstr(self, st, s, name='cstr'):
        if isinstance(s, str): s = s.encode()
        return self.alloc_bytes(st, list(s) + [0], name)
    def field(self, tname, idx):
        t = self.M.named[tname] if isinstance(tname, str) else tname
        return self.M.field_off(t, idx)[0]
    def sizeof(self, tname):
        return self.M.layout(self.M.named[tname])[0]
