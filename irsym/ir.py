# Parser for the subset of textual LLVM-14 IR that clang++-14 -O1 emits for the
# harness translation units.  Produces Module/Func objects and pre-decoded
# instruction tuples for irsym.engine.
import re

class T:
    __slots__ = ('k', 'a', 'b')
    def __init__(s, k, a=None, b=None): s.k, s.a, s.b = k, a, b
    def __repr__(s): return f"T({s.k},{s.a},{s.b})"

class Unsupported(Exception):
    """IR construct / situation outside the engine: the check is inconclusive."""

_re_int = re.compile(r'i(\d+)\b')
_re_named = re.compile(r'%[\w.\-$]+')
_re_arr = re.compile(r'\[\s*(\d+)\s*x\s*')

class Module:
    def __init__(self):
        self.named = {}; self.funcs = {}; self.globals = {}; self.aliases = {}; self.declares = set()
        self._lay = {}; self._tcache = {}

    def parse_type(self, s, i=0):
        n = len(s)
        while i < n and s[i] == ' ': i += 1
        m = _re_int.match(s, i)
        if m: t = T('int', int(m.group(1))); i = m.end()
        elif s.startswith('void', i): t = T('void'); i += 4
        elif s.startswith('double', i): t = T('fp', 64); i += 6
        elif s.startswith('float', i): t = T('fp', 32); i += 5
        elif s.startswith('x86_fp80', i): t = T('fp', 128); i += 8
        elif s.startswith('metadata', i): t = T('md'); i += 8
        elif s.startswith('...', i): t = T('varargs'); i += 3
        elif s.startswith('ptr', i) and (i + 3 >= n or not s[i+3].isalnum()): t = T('ptr', T('int', 8)); i += 3
        elif s[i] == '%':
            if s[i+1] == '"':
                j = s.index('"', i+2); name = s[i+1:j+1]; i = j+1
            else:
                m = _re_named.match(s, i); name = m.group(0)[1:]; i = m.end()
            t = T('named', name)
        elif s[i] == '[':
            m = _re_arr.match(s, i)
            cnt = int(m.group(1)); el, i = self.parse_type(s, m.end())
            while s[i] == ' ': i += 1
            assert s[i] == ']', s[i:i+20]; i += 1
            t = T('array', cnt, el)
        elif s[i] == '{' or s.startswith('<{', i):
            packed = s[i] == '<'
            i += 2 if packed else 1
            fields = []
            while True:
                while s[i] == ' ': i += 1
                if s[i] == '}': i += 1; break
                if s[i] == ',': i += 1; continue
                ft, i = self.parse_type(s, i); fields.append(ft)
            if packed:
                assert s[i] == '>'; i += 1
            t = T('struct', fields, packed)
        elif s[i] == '<':
            raise Unsupported("vector type " + s[i:i+30])
        elif s.startswith('opaque', i): t = T('opaque'); i += 6
        elif s.startswith('label', i): t = T('label'); i += 5
        else:
            raise Unsupported("type? " + s[i:i+40])
        while True:
            while i < n and s[i] == ' ': i += 1
            if i < n and s[i] == '*':
                t = T('ptr', t); i += 1
            elif i < n and s[i] == '(':
                depth = 0; j = i
                while True:
                    if s[j] == '(': depth += 1
                    elif s[j] == ')':
                        depth -= 1
                        if depth == 0: break
                    j += 1
                t = T('func', t); i = j+1
            else: break
        return t, i

    def resolve(self, t):
        while t.k == 'named': t = self.named[t.a]
        return t

    def layout(self, t):
        t = self.resolve(t)
        k = t.k
        if k == 'int':
            b = max(1, (t.a + 7)//8); sz = 1
            while sz < b: sz *= 2
            return sz, min(sz, 8)
        if k == 'ptr' or k == 'func': return 8, 8
        if k == 'fp': return (16, 16) if t.a == 128 else (t.a//8, t.a//8)
        if k == 'array':
            s, a = self.layout(t.b); return s*t.a, a
        if k == 'struct':
            key = id(t)
            L = self._lay.get(key)
            if L: return L[0], L[1]
            off = 0; al = 1; offs = []
            for f in t.a:
                s, a = self.layout(f)
                if t.b: a = 1
                off = (off + a - 1)//a*a; offs.append(off); off += s; al = max(al, a)
            off = (off + al - 1)//al*al
            self._lay[key] = (off, al, offs, t)
            return off, al
        if k == 'opaque': raise Unsupported("layout of opaque type")
        raise Unsupported("layout " + repr(t))

    def field_off(self, t, idx):
        t = self.resolve(t); self.layout(t)
        return self._lay[id(t)][2][idx], t.a[idx]

def split_top(s, sep=','):
    out = []; depth = 0; cur = []; inq = False
    for ch in s:
        if ch == '"': inq = not inq
        if not inq:
            if ch in '([{<': depth += 1
            elif ch in ')]}>': depth -= 1
            elif ch == sep and depth == 0:
                out.append(''.join(cur).strip()); cur = []; continue
        cur.append(ch)
    r = ''.join(cur).strip()
    if r: out.append(r)
    return out

class Func:
    def __init__(s, name, params, line):
        s.name, s.params, s.line = name, params, line
        s.blocks = {}; s.order = []; s.entry = None
        s.dec = {}      # block label -> list of decoded instruction tuples (filled lazily)

_re_md1 = re.compile(r',\s*!\w[\w.]*\s+!\d+')
_re_md2 = re.compile(r',\s*!\w[\w.]*\s+!\{[^}]*\}')
def strip_md(line):
    if '!' not in line: return line
    line = _re_md1.sub('', line)
    return _re_md2.sub('', line)

_re_typedef = re.compile(r'(%"[^"]+"|%[\w.\-$]+) = type (.*)$')
_re_global = re.compile(r'(@"[^"]+"|@[\w.\-$]+) = (.*)$')
_re_alias = re.compile(r'\balias\b.*?(@"[^"]+"|@[\w.\-$]+)\s*$')
_re_defname = re.compile(r'(@"[^"]+"|@[\w.\-$]+)\s*\(')
_re_label = re.compile(r'^([\w.\-$]+|"[^"]+"):')
_re_pname = re.compile(r'(%[\w.\-$]+|%"[^"]+")\s*$')

def parse_module(path):
    M = Module()
    txt = open(path).read().split('\n')
    i = 0; cur = None; bb = None; n = len(txt)
    while i < n:
        line = txt[i]; i += 1
        if cur is None:
            if not line: continue
            c0 = line[0]
            if c0 == '%':
                m = _re_typedef.match(line)
                if m:
                    name = m.group(1)[1:]
                    if m.group(2).strip() == 'opaque': M.named[name] = T('opaque')
                    else:
                        t, _ = M.parse_type(m.group(2)); M.named[name] = t
                continue
            if c0 == '@':
                m = _re_global.match(line)
                if m:
                    gname = m.group(1)[1:].strip('"')
                    M.globals[gname] = m.group(2)
                    if ' alias ' in m.group(2) or m.group(2).startswith('alias '):
                        ma = _re_alias.search(m.group(2))
                        if ma: M.aliases[gname] = ma.group(1)[1:].strip('"')
                continue
            if line.startswith('declare'):
                m = _re_defname.search(line)
                if m: M.declares.add(m.group(1)[1:].strip('"'))
                continue
            if line.startswith('define'):
                m = _re_defname.search(line)
                name = m.group(1)[1:].strip('"')
                j = m.end()-1; depth = 0; k = j
                while True:
                    if line[k] == '(': depth += 1
                    elif line[k] == ')':
                        depth -= 1
                        if depth == 0: break
                    k += 1
                ps = split_top(line[j+1:k])
                params = []
                for n_, p in enumerate(ps):
                    if p == '...': continue
                    t, e = M.parse_type(p)
                    mm = _re_pname.search(p)
                    params.append((t, mm.group(1) if mm else '%'+str(n_)))
                cur = Func(name, params, line); M.funcs[name] = cur
                bb = []; lbl = str(len(params)); cur.blocks[lbl] = bb; cur.order.append(lbl)
                cur.entry = lbl
                continue
        else:
            if line.startswith('}'):
                cur = None; continue
            s = line.split(';')[0].rstrip() if '"' not in line else line
            if not s.strip(): continue
            m = _re_label.match(s)
            if m:
                lbl = m.group(1).strip('"'); bb = []; cur.blocks[lbl] = bb; cur.order.append(lbl); continue
            st = strip_md(s.strip())
            if st.startswith('switch'):
                while ']' not in st:
                    st += ' ' + strip_md(txt[i].strip()); i += 1
            elif st.startswith('invoke') or ' = invoke ' in st[:40]:
                if ' unwind label ' not in st:
                    st += ' ' + strip_md(txt[i].strip()); i += 1
            elif 'landingpad' in st:
                while i < n and re.match(r'\s+(cleanup|catch|filter)', txt[i]):
                    st += ' ' + txt[i].strip(); i += 1
            bb.append(st)
    return M

# ---------------------------------------------------------------- instruction decoding
def mask(w): return (1 << w) - 1

_ARITH = frozenset(('add', 'sub', 'mul', 'and', 'or', 'xor', 'shl', 'lshr', 'ashr', 'udiv', 'urem', 'sdiv', 'srem'))
_CASTS = frozenset(('zext', 'sext', 'trunc', 'bitcast', 'ptrtoint', 'inttoptr', 'addrspacecast'))
_re_dst = re.compile(r'(%[\w.\-$]+|%"[^"]+") = (.*)$')
_re_flag = re.compile(r'(nuw|nsw|exact)\s+')
_re_attr = re.compile(r'(noundef|nonnull|signext|zeroext|noalias|nocapture|readonly|readnone|writeonly|returned|inreg|immarg|nofree|align \d+|dereferenceable\(\d+\)|dereferenceable_or_null\(\d+\)|sret\([^)]*\)|byval\([^)]*\))\s*')
_re_callee = re.compile(r'(@"[^"]+"|@[\w.\-$]+|%[\w.\-$]+|%"[^"]+")\s*\(')

def strip_attrs(rest):
    attrs = []
    while True:
        m = _re_attr.match(rest)
        if not m or not m.group(0): break
        attrs.append(m.group(1)); rest = rest[m.end():]
    return rest.strip(), attrs

def decode(M, ins):
    dst = None
    m = _re_dst.match(ins)
    body = ins
    if m: dst, body = m.group(1), m.group(2)
    opw = body.split(None, 1)[0]
    if opw in _ARITH:
        rest = body[len(opw):].strip(); flags = set()
        while True:
            mm = _re_flag.match(rest)
            if not mm: break
            flags.add(mm.group(1)); rest = rest[mm.end():]
        t, i = M.parse_type(rest); a, b = [x.strip() for x in rest[i:].split(',')]
        rt = M.resolve(t)
        if rt.k != 'int': raise Unsupported("arith on " + repr(rt))
        return ('bin', dst, opw, rt.a, a, b, frozenset(flags))
    if opw == 'icmp':
        mm = re.match(r'icmp (\w+) (.*)$', body); t, i = M.parse_type(mm.group(2))
        a, b = [x.strip() for x in split_top(mm.group(2)[i:])]
        return ('icmp', dst, mm.group(1), t, a, b)
    if opw == 'getelementptr':
        rest = body[len('getelementptr'):].strip()
        if rest.startswith('inbounds'): rest = rest[8:].strip()
        parts = split_top(rest)
        bt, _ = M.parse_type(parts[0])
        pt, i = M.parse_type(parts[1]); base = parts[1][i:].strip()
        idxs = []
        for p in parts[2:]:
            it, i = M.parse_type(p); idxs.append((it, p[i:].strip()))
        return ('gep', dst, bt, base, idxs)
    if opw == 'load':
        rest = body[4:].strip()
        if rest.startswith('atomic'): rest = rest[6:].strip()          # one thread: an atomic load is a load ("load atomic T, T* p ordering, align n")
        if rest.startswith('volatile'): rest = rest[8:].strip()
        parts = split_top(rest)
        t, _ = M.parse_type(parts[0]); pt, i = M.parse_type(parts[1])
        ptr = re.sub(r'\s+(syncscope\("[^"]*"\)\s+)?(unordered|monotonic|acquire|seq_cst)$', '', parts[1][i:].strip())
        return ('load', dst, t, ptr)
    if opw == 'store':
        rest = body[5:].strip()
        if rest.startswith('atomic'): raise Unsupported("atomic store")
        if rest.startswith('volatile'): rest = rest[8:].strip()
        parts = split_top(rest)
        t, i = M.parse_type(parts[0]); v = parts[0][i:].strip()
        pt, j = M.parse_type(parts[1])
        return ('store', t, v, parts[1][j:].strip())
    if opw in _CASTS:
        rest = body[len(opw):].strip()
        ft, i = M.parse_type(rest)
        k = rest.rindex(' to ')
        tt, _ = M.parse_type(rest[k+4:])
        return ('cast', dst, opw, ft, rest[i:k].strip(), tt)
    if opw == 'br':
        mm = re.match(r'br label %(\S+)$', body)
        if mm: return ('br', mm.group(1).strip('"'))
        mc = re.match(r'br i1 icmp ne \(.*@_ZTH.*null\), label %(\S+), label %(\S+)$', body)
        if mc: return ('br', mc.group(2).strip('"'))     # weak TLS init function absent
        mm = re.match(r'br i1 (\S+), label %(\S+), label %(\S+)$', body)
        if not mm: raise Unsupported("br " + body)
        return ('condbr', mm.group(1), mm.group(2).strip('"'), mm.group(3).strip('"'))
    if opw == 'switch':
        mm = re.match(r'switch (.*?), label %(\S+) \[(.*)\]', body)
        t, i = M.parse_type(mm.group(1)); v = mm.group(1)[i:].strip()
        w = M.resolve(t).a
        cases = [(int(c.group(1)) & mask(w), c.group(2).strip('"')) for c in re.finditer(r'i\d+ (-?\d+), label %(\S+)', mm.group(3))]
        return ('switch', t, v, mm.group(2).strip('"'), cases)
    if opw == 'phi':
        rest = body[3:].strip(); t, i = M.parse_type(rest)
        inc = {}
        for grp in split_top(rest[i:]):
            g = grp.strip()
            parts = split_top(g[1:-1])
            inc[parts[-1].strip()[1:].strip('"')] = ','.join(parts[:-1]).strip()
        return ('phi', dst, t, inc)
    if opw == 'select':
        parts = split_top(body[6:].strip())
        c = parts[0].split()[-1]
        t, i = M.parse_type(parts[1]); a = parts[1][i:].strip(); t2, j = M.parse_type(parts[2]); b = parts[2][j:].strip()
        return ('select', dst, c, t, a, b)
    if opw in ('call', 'tail', 'musttail', 'notail', 'invoke'):
        mm = _re_callee.search(body)
        callee = mm.group(1)
        # return type: text between 'call'/'invoke' (+cc/attrs) and callee
        head = body[:mm.start()]
        head = re.sub(r'^(tail |musttail |notail )?(call|invoke)\s+', '', head)
        head, _ = strip_attrs(re.sub(r'^(fastcc|ccc|coldcc)\s+', '', head))
        try: rett, _ = M.parse_type(head)
        except Exception: rett = T('void')
        j = mm.end()-1; depth = 0; k = j
        while True:
            if body[k] == '(': depth += 1
            elif body[k] == ')':
                depth -= 1
                if depth == 0: break
            k += 1
        args = []
        for a in split_top(body[j+1:k]):
            t, i = M.parse_type(a); rest, attrs = strip_attrs(a[i:].strip())
            bvt = None
            for at in attrs:
                if at.startswith('byval('): bvt, _ = M.parse_type(at[6:-1])
            args.append((t, rest, 'noundef' in attrs, bvt))
        if opw == 'invoke':
            m3 = re.search(r'to label %(\S+) unwind label %(\S+)', body)
            return ('invoke', dst, rett, callee, args, m3.group(1).strip('"'), m3.group(2).strip('"'))
        return ('call', dst, rett, callee, args)
    if opw == 'ret':
        if body.strip() == 'ret void': return ('ret', None, None)
        rest = body[3:].strip(); t, i = M.parse_type(rest)
        return ('ret', t, rest[i:].strip())
    if opw == 'alloca':
        parts = split_top(body[6:].strip())
        t, _ = M.parse_type(parts[0]); cnt = None
        if len(parts) > 1 and not parts[1].startswith('align'):
            ct, ci = M.parse_type(parts[1]); cnt = (ct, parts[1][ci:].strip())
        return ('alloca', dst, t, cnt)
    if opw == 'unreachable': return ('unreachable',)
    if opw == 'landingpad':
        clauses = []
        for m2 in re.finditer(r'(cleanup)|catch i8\* (null|bitcast \([^)]*? to i8\*\)|@[\w.$]+)', body):
            if m2.group(1): clauses.append(('cleanup', None))
            else: clauses.append(('catch', m2.group(2)))
        return ('landingpad', dst, clauses)
    if opw == 'resume': return ('resume',)
    if opw == 'extractvalue':
        parts = split_top(body[len('extractvalue'):].strip())
        t, i = M.parse_type(parts[0])
        return ('extractvalue', dst, parts[0][i:].strip(), [int(p) for p in parts[1:]])
    if opw == 'insertvalue':
        parts = split_top(body[len('insertvalue'):].strip())
        at, ai = M.parse_type(parts[0])
        t, i = M.parse_type(parts[1])
        return ('insertvalue', dst, at, parts[0][ai:].strip(), t, parts[1][i:].strip(), [int(p) for p in parts[2:]])
    if opw == 'freeze':
        rest = body[6:].strip(); t, i = M.parse_type(rest)
        return ('freeze', dst, t, rest[i:].strip())
    raise Unsupported("instruction " + ins[:120])
