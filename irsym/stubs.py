# Native models of libc / libstdc++ / runtime functions that are external to the harness IR.
# Every model here is part of the trusted base of each claim (listed in evidence via Engine.called_stubs).
import z3
from .values import *
from .ir import Unsupported

MAXSTR = (1 << 62) - 1

# ---------------------------------------------------------------- allocation
def s_new(E, st, a):
    n = E.use(st, a[0], 'allocation size')
    if not is_c(n): n = E.concretize(st, n, 'allocation size')
    return st.alloc(n, 'heap')
def s_delete(E, st, a):
    p = a[0]
    if isinstance(p, Ptr) and p.obj != 0:
        o = st.objs.get(p.obj)
        if o is not None:
            if o.freed: raise Violation('double-free', f"double free of {o.name}")
            if p.off != 0: raise Violation('bad-free', "free of interior pointer")
            o = st.wobj(p.obj); o.freed = True; o.cells = {}; o.zero = []; o.regions = []
    return None
def s_nop(E, st, a): return None
def s_ret0(E, st, a): return 0
def s_retarg0(E, st, a): return a[0]

# ---------------------------------------------------------------- libc memory / strings
def s_memcmp(E, st, a):
    p, q, n = a
    n = E.use(st, n, 'memcmp length')
    if not is_c(n): n = E.concretize(st, n, 'memcmp length')
    for k in range(n):
        x = E.use(st, E.load(st, p.add(k), 1), 'memcmp byte'); y = E.use(st, E.load(st, q.add(k), 1), 'memcmp byte')
        if is_c(x) and is_c(y):
            if x != y: return (x - y) & 0xffffffff
        else:
            if E.branch(st, bv(x, 8) != bv(y, 8)):
                return simp(z3.ZeroExt(24, bv(x, 8)) - z3.ZeroExt(24, bv(y, 8)))
    return 0
def s_strlen(E, st, a):
    p = a[0]; k = 0
    while True:
        b = E.use(st, E.load(st, p.add(k), 1), 'strlen byte')
        if not is_c(b):
            if E.branch(st, b == 0): return k
        elif b == 0: return k
        k += 1
        if k > 1 << 16: raise Unsupported("strlen runaway")
def s_strcmp(E, st, a):
    p, q = a; k = 0
    while True:
        x = E.use(st, E.load(st, p.add(k), 1), 'strcmp byte'); y = E.use(st, E.load(st, q.add(k), 1), 'strcmp byte')
        if not (is_c(x) and is_c(y)): raise Unsupported("strcmp on symbolic bytes")
        if x != y: return (x - y) & 0xffffffff
        if x == 0: return 0
        k += 1
def s_memchr(E, st, a):
    p, c, n = a
    if not is_c(n) or not is_c(c): raise Unsupported("memchr symbolic")
    for k in range(n):
        b = E.use(st, E.load(st, p.add(k), 1), 'memchr byte')
        if not is_c(b): raise Unsupported("memchr symbolic byte")
        if b == (c & 0xff): return p.add(k)
    return NULL
def s_memcpy(E, st, a): E.memcpy(st, a[0], a[1], a[2]); return a[0]
def s_memset(E, st, a): E.memset(st, a[0], a[1] & 0xff if is_c(a[1]) else a[1], a[2]); return a[0]

# ---------------------------------------------------------------- std::string (libstdc++ SSO layout: p@0 size@8 buf/cap@16)
class Str:
    def __init__(s, E, st, this): s.E, s.st, s.this = E, st, this
    def p(s): return s.E.load(s.st, s.this, 8, True)
    def size(s):
        n = s.E.use(s.st, s.E.load(s.st, s.this.add(8), 8), 'string size')
        if not is_c(n): raise Unsupported("symbolic string size")
        return n
    def is_local(s):
        p = s.p(); return isinstance(p, Ptr) and p.obj == s.this.obj and p.off == s.this.off + 16
    def cap(s): return 15 if s.is_local() else s.E.load(s.st, s.this.add(16), 8)
    def set_len(s, n):
        s.E.store(s.st, s.this.add(8), 8, n); s.E.store(s.st, s.p().add(n), 1, 0)
    def data(s): return s.E.read_bytes(s.st, s.p(), s.size())
    def init_local(s):
        s.E.store(s.st, s.this, 8, s.this.add(16)); s.set_len(0)
    def assign_bytes(s, data):
        n = len(data)
        if n > s.cap():
            newcap = max(n, 2*s.cap())
            np_ = s.st.alloc(newcap + 1, 'heap:str')
            if not s.is_local(): s_delete(s.E, s.st, [s.p()])
            s.E.store(s.st, s.this, 8, np_); s.E.store(s.st, s.this.add(16), 8, newcap)
        s.E.write_bytes(s.st, s.p(), data); s.set_len(n)

def str_create(E, st, a):      # _M_create(this, size_t& capacity, size_t old_capacity)
    this, capp, old = a
    cap = E.use(st, E.load(st, capp, 8), 'string capacity')
    if not is_c(cap) or not is_c(old): raise Unsupported("symbolic string capacity")
    if cap > MAXSTR: raise Unsupported("length_error in _M_create")
    if cap > old and cap < 2*old:
        cap = min(2*old, MAXSTR); E.store(st, capp, 8, cap)
    return st.alloc(cap + 1, 'heap:str')
def str_mutate(E, st, a):      # _M_mutate(this, pos, len1, const char* s, len2)
    this, pos, len1, s, len2 = a
    S = Str(E, st, this); old = S.data(); ins = E.read_bytes(st, s, len2) if len2 and s.obj != 0 else []
    # libstdc++: always reallocates in _M_mutate; with s == nullptr the gap of len2 bytes is left for the caller to fill
    newcap = len(old) - len1 + len2; oc = S.cap()
    if newcap > oc and newcap < 2*oc: newcap = 2*oc
    np_ = st.alloc(newcap + 1, 'heap:str')
    if not S.is_local(): s_delete(E, st, [S.p()])
    E.store(st, this, 8, np_); E.store(st, this.add(16), 8, newcap)
    E.write_bytes(st, np_, old[:pos])
    if ins: E.write_bytes(st, np_.add(pos), ins)
    E.write_bytes(st, np_.add(pos + len2), old[pos+len1:]); E.store(st, this.add(8), 8, len(old))   # length is set by the caller
    return None
def str_replace(E, st, a):     # _M_replace(this, pos, len1, s, len2) -> *this
    this, pos, len1, s, len2 = a
    for x in (pos, len1, len2):
        if not is_c(x): raise Unsupported("symbolic string replace")
    S = Str(E, st, this); old = S.data(); ins = E.read_bytes(st, s, len2) if len2 else []
    S.assign_bytes(old[:pos] + ins + old[pos+len1:]); return this
def str_replace_aux(E, st, a): # _M_replace_aux(this, pos, n1, n2, c)
    this, pos, n1, n2, c = a
    S = Str(E, st, this); old = S.data()
    S.assign_bytes(old[:pos] + [c]*n2 + old[pos+n1:]); return this
def str_append(E, st, a):      # _M_append(this, s, n)
    this, s, n = a
    if not is_c(n): raise Unsupported("symbolic append length")
    S = Str(E, st, this); S.assign_bytes(S.data() + (E.read_bytes(st, s, n) if n else [])); return this
def str_assign(E, st, a):      # _M_assign(this, const string&)
    this, other = a
    if this == other: return None
    Str(E, st, this).assign_bytes(Str(E, st, other).data()); return None
def str_erase(E, st, a):       # _M_erase(this, pos, n)
    this, pos, n = a
    S = Str(E, st, this); old = S.data(); S.assign_bytes(old[:pos] + old[pos+n:]); return None
def _cmp_bytes(E, st, x, y):
    for u, v in zip(x, y):
        if not (is_c(u) and is_c(v)):
            if E.branch(st, bv(u, 8) != bv(v, 8)):
                return 1 if E.branch(st, z3.UGT(bv(u, 8), bv(v, 8))) else 0xffffffff
            continue
        if u != v: return 1 if u > v else 0xffffffff
    d = len(x) - len(y)
    return 0 if d == 0 else (1 if d > 0 else 0xffffffff)
def str_compare(E, st, a):     # compare(const string&)
    return _cmp_bytes(E, st, Str(E, st, a[0]).data(), Str(E, st, a[1]).data())
def str_compare_cstr(E, st, a):
    return _cmp_bytes(E, st, Str(E, st, a[0]).data(), list(E.read_cstr(st, a[1])))
def str_push_back(E, st, a):
    S = Str(E, st, a[0]); S.assign_bytes(S.data() + [a[1]]); return None
def str_ctor_default(E, st, a):
    Str(E, st, a[0]).init_local(); return None
def str_ctor_move(E, st, a):
    this, other = a[0], a[1]
    S = Str(E, st, this); O = Str(E, st, other); S.init_local(); S.assign_bytes(O.data()); O.assign_bytes([]); return None
def str_local_data(E, st, a): return a[0].add(16)
def str_alloc_hider(E, st, a): E.store(st, a[0], 8, a[1]); return None          # _Alloc_hider(char* p, alloc): _M_p = p
def str_M_data_set(E, st, a): E.store(st, a[0], 8, a[1]); return None
def str_M_capacity_set(E, st, a): E.store(st, a[0].add(16), 8, a[1]); return None
def str_M_set_length(E, st, a):
    E.store(st, a[0].add(8), 8, a[1]); p = Str(E, st, a[0]).p(); E.store(st, Ptr(p.obj, E.addoff(p.off, a[1], 64, 1)), 1, 0); return None
def str_S_copy_chars(E, st, a):
    d, b, e = a
    n = e.off - b.off
    if n: E.memcpy(st, d, b, n)
    return None
def str_M_dispose(E, st, a): return str_dtor(E, st, a)
def str_capacity(E, st, a): return Str(E, st, a[0]).cap()
def str_begin(E, st, a): return Str(E, st, a[0]).p()
def str_end(E, st, a):
    S = Str(E, st, a[0]); p = S.p(); return p.add(S.size())
def str_index(E, st, a):
    p = Str(E, st, a[0]).p(); return Ptr(p.obj, E.addoff(p.off, a[1], 64, 1))
def str_append_n(E, st, a): return str_append(E, st, a)
def str_append_str(E, st, a):
    S = Str(E, st, a[0]); S.assign_bytes(S.data() + Str(E, st, a[1]).data()); return a[0]
def str_append_fill(E, st, a):
    S = Str(E, st, a[0]); S.assign_bytes(S.data() + [a[2]] * a[1]); return a[0]
def str_assign_n(E, st, a):
    Str(E, st, a[0]).assign_bytes(E.read_bytes(st, a[1], a[2]) if a[2] else []); return a[0]
def str_assign_copy(E, st, a):
    if not (a[0] == a[1]): Str(E, st, a[0]).assign_bytes(Str(E, st, a[1]).data())
    return a[0]
def str_assign_move(E, st, a):
    if not (a[0] == a[1]):
        Str(E, st, a[0]).assign_bytes(Str(E, st, a[1]).data()); Str(E, st, a[1]).assign_bytes([])
    return a[0]
def str_insert_cstr(E, st, a):
    S = Str(E, st, a[0]); d = S.data(); ins = list(E.read_cstr(st, a[2])); S.assign_bytes(d[:a[1]] + ins + d[a[1]:]); return a[0]
def str_insert_str(E, st, a):
    S = Str(E, st, a[0]); d = S.data(); ins = Str(E, st, a[2]).data(); S.assign_bytes(d[:a[1]] + ins + d[a[1]:]); return a[0]
def str_ctor_fill(E, st, a):
    S = Str(E, st, a[0]); S.init_local()
    n = E.use(st, a[1], 'string length')
    if not is_c(n): n = E.concretize(st, n, 'string length')
    S.assign_bytes([a[2]] * n); return None
def str_resize1(E, st, a): return str_resize(E, st, [a[0], a[1], 0])
def str_c_str(E, st, a): return Str(E, st, a[0]).p()
def str_size(E, st, a): return Str(E, st, a[0]).size()
def str_ctor_cstr(E, st, a):   # basic_string(const char*, const allocator&)
    this, s = a[0], a[1]
    if s.obj == 0: raise Violation('null-deref', "std::string constructed from null")
    S = Str(E, st, this); S.init_local(); S.assign_bytes(list(E.read_cstr(st, s))); return None
def str_ctor_copy(E, st, a):
    this, other = a[0], a[1]
    S = Str(E, st, this); S.init_local(); S.assign_bytes(Str(E, st, other).data()); return None
def str_dtor(E, st, a):
    S = Str(E, st, a[0])
    if not S.is_local(): s_delete(E, st, [S.p()])
    return None
def str_construct_fill(E, st, a):   # _M_construct(size_type n, char c): called with _M_p = local buffer
    this, n, c = a
    n = E.use(st, n, 'string length')
    if not is_c(n): n = E.concretize(st, n, 'string length')
    Str(E, st, this).assign_bytes([c] * n); return None
def str_resize(E, st, a):           # resize(n, c)
    this, n, c = a
    if not is_c(n): raise Unsupported("symbolic resize")
    S = Str(E, st, this); d = S.data()
    S.assign_bytes(d[:n] + [c] * max(0, n - len(d))); return None
def str_reserve(E, st, a):
    this, n = a[0], (a[1] if len(a) > 1 else 0)
    S = Str(E, st, this)
    if is_c(n) and n > S.cap():
        d = S.data(); np_ = st.alloc(n + 1, 'heap:str')
        if not S.is_local(): s_delete(E, st, [S.p()])
        E.store(st, this, 8, np_); E.store(st, this.add(16), 8, n); E.write_bytes(st, np_, d + [0])
    return None

# ---------------------------------------------------------------- red-black tree (std::map / std::set)
# node: color i32 @0, parent @8, left @16, right @24.  Plain BST insert with correct header links:
# balance is irrelevant to find/iteration order.
def _gp(E, st, p, off):
    v = E.load(st, p.add(off), 8, True)
    return E.int2ptr(v) if is_c(v) else v
def _sp(E, st, p, off, v): E.store(st, p.add(off), 8, v)
def rb_insert(E, st, a):
    left, x, par, hdr = a
    left = E.use(st, left, 'rb insert side')
    if not is_c(left): left = 1 if E.branch(st, bv(left, left.size()) != 0) else 0
    hs = set(st.x.get('rb_hdrs', ())); hs.add((hdr.obj, hdr.off)); st.x['rb_hdrs'] = frozenset(hs)
    _sp(E, st, x, 8, par); _sp(E, st, x, 16, NULL); _sp(E, st, x, 24, NULL); E.store(st, x, 4, 0)
    if left:
        _sp(E, st, par, 16, x)
        if par == hdr:
            _sp(E, st, hdr, 8, x); _sp(E, st, hdr, 24, x)
        elif par == _gp(E, st, hdr, 16): _sp(E, st, hdr, 16, x)
    else:
        _sp(E, st, par, 24, x)
        if par == _gp(E, st, hdr, 24): _sp(E, st, hdr, 24, x)
    return None
def rb_incr(E, st, a):
    x = a[0]
    r = _gp(E, st, x, 24)
    if r != NULL:
        x = r
        while _gp(E, st, x, 16) != NULL: x = _gp(E, st, x, 16)
        return x
    y = _gp(E, st, x, 8)
    while x == _gp(E, st, y, 24): x = y; y = _gp(E, st, y, 8)
    if _gp(E, st, x, 24) != y: x = y
    return x
def rb_decr(E, st, a):
    x = a[0]
    if (x.obj, x.off) in st.x.get('rb_hdrs', ()): return _gp(E, st, x, 24)     # end() -> rightmost
    l = _gp(E, st, x, 16)
    if l != NULL:
        y = l
        while _gp(E, st, y, 24) != NULL: y = _gp(E, st, y, 24)
        return y
    y = _gp(E, st, x, 8)
    while x == _gp(E, st, y, 16): x = y; y = _gp(E, st, y, 8)
    return y

# ---------------------------------------------------------------- C++ runtime
def cxa_alloc_exc(E, st, a): return st.alloc(a[0], 'exception')
def cxa_throw(E, st, a): raise CxxThrow(a[0], a[1], a[2] if len(a) > 2 else None)
def cxa_begin_catch(E, st, a):
    st.caught.append(a[0]); return a[0]
def cxa_end_catch(E, st, a):
    if st.caught: st.caught.pop()
    return None
def cxa_rethrow(E, st, a):
    raise Unsupported("__cxa_rethrow")
def s_terminate(E, st, a): raise Abort('std::terminate')
def s_abort(E, st, a): raise Abort('abort')
def s_exit(E, st, a): raise Abort('exit', a[0])
def dyn_cast(E, st, a):
    p, src, dstti = a[0], a[1], a[2]
    if p.obj == 0: return NULL
    vptr = E.use(st, E.load(st, p, 8, True), 'vptr in dynamic_cast')
    ti = E.load(st, Ptr(vptr.obj, vptr.off - 8), 8, True)
    if (is_c(ti) and ti == 0) or (isinstance(ti, Ptr) and ti.obj == 0): return NULL      # a modelled stream object without RTTI: not an instance of the target
    return p if E.ti_derives(st, ti, dstti) else NULL
def guard_acquire(E, st, a):
    b = E.load(st, a[0], 1)
    return 0 if (is_c(b) and b != 0) else 1
def guard_release(E, st, a): E.store(st, a[0], 1, 1); return None

def rt_error_ctor(E, st, a):
    """std::runtime_error/logic_error(const string& | const char*): keep type, record message pointer"""
    E.store(st, a[0], 8, Ptr(('g', '_ZTVSt13runtime_error'), 16)); E.store(st, a[0].add(8), 8, NULL); return None

BASIC = {
    '_Znwm': s_new, '_Znam': s_new, '_ZdlPv': s_delete, '_ZdaPv': s_delete, '_ZdlPvm': s_delete, '_ZdaPvm': s_delete,
    '_ZnwmSt11align_val_t': s_new, '_ZdlPvSt11align_val_t': s_delete, '_ZdlPvmSt11align_val_t': s_delete,
    'malloc': s_new, 'free': s_delete,
    'memcmp': s_memcmp, 'bcmp': s_memcmp, 'strlen': s_strlen, 'strcmp': s_strcmp, 'memchr': s_memchr,
    'memcpy': s_memcpy, 'memmove': s_memcpy, 'memset': s_memset,
    '_ZNSt7__cxx1112basic_stringIcSt11char_traitsIcESaIcEE9_M_createERmm': str_create,
    '_ZNSt7__cxx1112basic_stringIcSt11char_traitsIcESaIcEE9_M_mutateEmmPKcm': str_mutate,
    '_ZNSt7__cxx1112basic_stringIcSt11char_traitsIcESaIcEE10_M_replaceEmmPKcm': str_replace,
    '_ZNSt7__cxx1112basic_stringIcSt11char_traitsIcESaIcEE14_M_replace_auxEmmmc': str_replace_aux,
    '_ZNSt7__cxx1112basic_stringIcSt11char_traitsIcESaIcEE9_M_appendEPKcm': str_append,
    '_ZNSt7__cxx1112basic_stringIcSt11char_traitsIcESaIcEE9_M_assignERKS4_': str_assign,
    '_ZNSt7__cxx1112basic_stringIcSt11char_traitsIcESaIcEE8_M_eraseEmm': str_erase,
    '_ZNSt7__cxx1112basic_stringIcSt11char_traitsIcESaIcEE12_M_constructEmc': str_construct_fill,
    '_ZNSt7__cxx1112basic_stringIcSt11char_traitsIcESaIcEE6resizeEmc': str_resize,
    '_ZNSt7__cxx1112basic_stringIcSt11char_traitsIcESaIcEE7reserveEm': str_reserve,
    '_ZNSt7__cxx1112basic_stringIcSt11char_traitsIcESaIcEE7reserveEv': str_reserve,
    '_ZNSt7__cxx1112basic_stringIcSt11char_traitsIcESaIcEEC1EPKcRKS3_': str_ctor_cstr,
    '_ZNSt7__cxx1112basic_stringIcSt11char_traitsIcESaIcEEC2EPKcRKS3_': str_ctor_cstr,
    '_ZNSt7__cxx1112basic_stringIcSt11char_traitsIcESaIcEEC1ERKS4_': str_ctor_copy,
    '_ZNSt7__cxx1112basic_stringIcSt11char_traitsIcESaIcEEC2ERKS4_': str_ctor_copy,
    '_ZNSt7__cxx1112basic_stringIcSt11char_traitsIcESaIcEED1Ev': str_dtor,
    '_ZNKSt7__cxx1112basic_stringIcSt11char_traitsIcESaIcEE7compareERKS4_': str_compare,
    '_ZNKSt7__cxx1112basic_stringIcSt11char_traitsIcESaIcEE7compareEPKc': str_compare_cstr,
    '_ZNSt7__cxx1112basic_stringIcSt11char_traitsIcESaIcEE9push_backEc': str_push_back,
    '_ZNSt7__cxx1112basic_stringIcSt11char_traitsIcESaIcEEpLEc': lambda E, st, a: (str_push_back(E, st, a), a[0])[1],
    '_ZNSt7__cxx1112basic_stringIcSt11char_traitsIcESaIcEEC1Ev': str_ctor_default, '_ZNSt7__cxx1112basic_stringIcSt11char_traitsIcESaIcEEC2Ev': str_ctor_default,
    '_ZNSt7__cxx1112basic_stringIcSt11char_traitsIcESaIcEEC1EOS4_': str_ctor_move, '_ZNSt7__cxx1112basic_stringIcSt11char_traitsIcESaIcEEC2EOS4_': str_ctor_move,
    '_ZNSt7__cxx1112basic_stringIcSt11char_traitsIcESaIcEE13_M_local_dataEv': str_local_data, '_ZNKSt7__cxx1112basic_stringIcSt11char_traitsIcESaIcEE13_M_local_dataEv': str_local_data,
    '_ZNSt7__cxx1112basic_stringIcSt11char_traitsIcESaIcEE12_Alloc_hiderC2EPcRKS3_': str_alloc_hider, '_ZNSt7__cxx1112basic_stringIcSt11char_traitsIcESaIcEE12_Alloc_hiderC1EPcRKS3_': str_alloc_hider,
    '_ZNSt7__cxx1112basic_stringIcSt11char_traitsIcESaIcEE12_Alloc_hiderC2EPcOS3_': str_alloc_hider,
    '_ZNSt7__cxx1112basic_stringIcSt11char_traitsIcESaIcEE7_M_dataEPc': str_M_data_set, '_ZNKSt7__cxx1112basic_stringIcSt11char_traitsIcESaIcEE7_M_dataEv': str_c_str,
    '_ZNSt7__cxx1112basic_stringIcSt11char_traitsIcESaIcEE11_M_capacityEm': str_M_capacity_set,
    '_ZNSt7__cxx1112basic_stringIcSt11char_traitsIcESaIcEE13_M_set_lengthEm': str_M_set_length,
    '_ZNSt7__cxx1112basic_stringIcSt11char_traitsIcESaIcEE13_S_copy_charsEPcPKcS7_': str_S_copy_chars,
    '_ZNSt7__cxx1112basic_stringIcSt11char_traitsIcESaIcEE10_M_disposeEv': str_M_dispose,
    '_ZNKSt7__cxx1112basic_stringIcSt11char_traitsIcESaIcEE8capacityEv': str_capacity,
    '_ZNKSt7__cxx1112basic_stringIcSt11char_traitsIcESaIcEE5beginEv': str_begin, '_ZNSt7__cxx1112basic_stringIcSt11char_traitsIcESaIcEE5beginEv': str_begin,
    '_ZNKSt7__cxx1112basic_stringIcSt11char_traitsIcESaIcEE3endEv': str_end, '_ZNSt7__cxx1112basic_stringIcSt11char_traitsIcESaIcEE3endEv': str_end,
    '_ZNKSt7__cxx1112basic_stringIcSt11char_traitsIcESaIcEEixEm': str_index, '_ZNSt7__cxx1112basic_stringIcSt11char_traitsIcESaIcEEixEm': str_index,
    '_ZNSt7__cxx1112basic_stringIcSt11char_traitsIcESaIcEE6appendEPKcm': str_append_n, '_ZNSt7__cxx1112basic_stringIcSt11char_traitsIcESaIcEE6appendERKS4_': str_append_str,
    '_ZNSt7__cxx1112basic_stringIcSt11char_traitsIcESaIcEEpLERKS4_': str_append_str, '_ZNSt7__cxx1112basic_stringIcSt11char_traitsIcESaIcEE6appendEmc': str_append_fill,
    '_ZNSt7__cxx1112basic_stringIcSt11char_traitsIcESaIcEE6assignEPKcm': str_assign_n,
    '_ZNSt7__cxx1112basic_stringIcSt11char_traitsIcESaIcEEaSERKS4_': str_assign_copy, '_ZNSt7__cxx1112basic_stringIcSt11char_traitsIcESaIcEEaSEOS4_': str_assign_move,
    '_ZNSt7__cxx1112basic_stringIcSt11char_traitsIcESaIcEE6resizeEm': str_resize1,
    '_ZNSt7__cxx1112basic_stringIcSt11char_traitsIcESaIcEE6insertEmPKc': str_insert_cstr, '_ZNSt7__cxx1112basic_stringIcSt11char_traitsIcESaIcEE6insertEmRKS4_': str_insert_str,
    '_ZNSt7__cxx1112basic_stringIcSt11char_traitsIcESaIcEEC2EmcRKS3_': str_ctor_fill, '_ZNSt7__cxx1112basic_stringIcSt11char_traitsIcESaIcEEC1EmcRKS3_': str_ctor_fill,
    '_ZNKSt7__cxx1112basic_stringIcSt11char_traitsIcESaIcEE5c_strEv': str_c_str, '_ZNKSt7__cxx1112basic_stringIcSt11char_traitsIcESaIcEE4dataEv': str_c_str,
    '_ZNKSt7__cxx1112basic_stringIcSt11char_traitsIcESaIcEE4sizeEv': str_size, '_ZNKSt7__cxx1112basic_stringIcSt11char_traitsIcESaIcEE6lengthEv': str_size,
    '_ZNSt7__cxx1112basic_stringIcSt11char_traitsIcESaIcEED2Ev': str_dtor,
    '_ZSt29_Rb_tree_insert_and_rebalancebPSt18_Rb_tree_node_baseS0_RS_': rb_insert,
    '_ZSt18_Rb_tree_incrementPSt18_Rb_tree_node_base': rb_incr, '_ZSt18_Rb_tree_incrementPKSt18_Rb_tree_node_base': rb_incr,
    '_ZSt18_Rb_tree_decrementPSt18_Rb_tree_node_base': rb_decr, '_ZSt18_Rb_tree_decrementPKSt18_Rb_tree_node_base': rb_decr,
    '__cxa_allocate_exception': cxa_alloc_exc, '__cxa_throw': cxa_throw, '__cxa_free_exception': s_nop,
    '__cxa_begin_catch': cxa_begin_catch, '__cxa_end_catch': cxa_end_catch, '__cxa_rethrow': cxa_rethrow,
    '_ZSt9terminatev': s_terminate, 'abort': s_abort, 'exit': s_exit, '__clang_call_terminate': s_terminate,
    '__dynamic_cast': dyn_cast, '__cxa_guard_acquire': guard_acquire, '__cxa_guard_release': guard_release, '__cxa_guard_abort': s_nop,
    '__cxa_atexit': s_ret0,
    '_ZNSt13runtime_errorC1EPKc': rt_error_ctor, '_ZNSt13runtime_errorC2EPKc': rt_error_ctor,
    '_ZNSt13runtime_errorC1ERKNSt7__cxx1112basic_stringIcSt11char_traitsIcESaIcEEE': rt_error_ctor,
    '_ZNSt13runtime_errorC2ERKNSt7__cxx1112basic_stringIcSt11char_traitsIcESaIcEEE': rt_error_ctor,
    '_ZNSt13runtime_errorD1Ev': s_nop, '_ZNSt13runtime_errorD2Ev': s_nop, '_ZNSt13runtime_errorD0Ev': s_nop,
    '_ZNSt9exceptionD2Ev': s_nop,
    '_ZNSaIcEC2Ev': s_nop, '_ZNSaIcEC1Ev': s_nop, '_ZNSaIcED2Ev': s_nop, '_ZNSaIcED1Ev': s_nop, '_ZNSaIcEC2ERKS_': s_nop, '_ZNSaIcEC1ERKS_': s_nop,
}

# VTTs of libstdc++ stream classes are external data; inlined constructors/destructors read them to find the
# virtual base (basic_ios). Model: every VTT slot points into a fake vtable whose vbase-offset entry is right.
VTT_VBASE = {'_ZTTSt14basic_ifstreamIcSt11char_traitsIcEE': 256, '_ZTTSt14basic_ofstreamIcSt11char_traitsIcEE': 248,
             '_ZTTSt13basic_fstreamIcSt11char_traitsIcEE': 264,
             '_ZTTNSt7__cxx1119basic_istringstreamIcSt11char_traitsIcESaIcEEE': 120,
             '_ZTTNSt7__cxx1119basic_ostringstreamIcSt11char_traitsIcESaIcEEE': 112,
             '_ZTTNSt7__cxx1118basic_stringstreamIcSt11char_traitsIcESaIcEEE': 128}
def _vtt(vbase):
    def build(E, st, name):
        o = Obj(8*16, name); o.const = True
        for i in range(16): o.cells[8*i] = (8, Ptr(('g', name + '$fakevt'), 24))
        return o
    def build_vt(E, st, name):
        o = Obj(64, name); o.const = True; o.cells[0] = (8, vbase); o.zero.append((8, 64)); return o
    return build, build_vt

def install(E, extra=None):
    E.extern = getattr(E, 'extern', {})
    for name, vb in VTT_VBASE.items():
        b1, b2 = _vtt(vb); E.extern[name] = b1; E.extern[name + '$fakevt'] = b2
    def single_threaded(E_, st, name):
        o = Obj(1, name); o.cells[0] = (1, 1); return o
    E.extern.setdefault('__libc_single_threaded', single_threaded)      # glibc: the process has one thread (shared_ptr takes the non-atomic path)
    E.stubs.update({'_ZNSt13basic_filebufIcSt11char_traitsIcEED2Ev': s_nop, '_ZNSt13basic_filebufIcSt11char_traitsIcEED1Ev': s_nop,
                    '_ZNSt8ios_baseD2Ev': s_nop, '_ZNSt8ios_baseC2Ev': s_nop, '_ZNSt6localeD1Ev': s_nop, '_ZNSt6localeC1Ev': s_nop})
    E.stubs.update(BASIC)
    if extra: E.stubs.update(extra)
    return E

# ---------------------------------------------------------------- boost::format at its API (constructor, operator%, str())
# Used where the formatted text is data the program goes on to use (generated label names); the directives the
# repository uses are %s, %d, %x with optional flags and width.
def boost_format_stubs(E):
    import re as _re
    PRE = '_ZN5boost12basic_formatIcSt11char_traitsIcESaIcEE'
    def key(p): return (p.obj, p.off)
    def table(st):
        t = dict(st.x.get('bfmt', {})); st.x['bfmt'] = t; return t
    def ctor(E_, st, a):
        table(st)[key(a[0])] = (bytes(E_.read_cstr(st, a[1])), ()); return None
    def feed(E_, st, a):
        name = st.x.get('_callee', '')
        fmt, args = table(st).get(key(a[0]), (b'', ()))
        ref = a[1]
        if 'basic_string' in name: v = bytes(b if is_c(b) else 63 for b in Str(E_, st, ref).data())
        elif 'IPKc' in name or 'IKPKc' in name:
            q = E_.load(st, ref, 8, True); v = bytes(E_.read_cstr(st, q)) if isinstance(q, Ptr) and q.obj != 0 else b'(null)'
        elif 'ImE' in name or 'IKmE' in name: v = E_.use(st, E_.load(st, ref, 8), 'format argument')
        else: v = E_.use(st, E_.load(st, ref, 4), 'format argument')
        table(st)[key(a[0])] = (fmt, args + (v,)); return a[0]
    def render(fmt, args):
        out = b''; i = 0; k = 0
        for m in _re.finditer(rb'%([-#0 +]*)(\d*)([sdxuc%])', fmt):
            out += fmt[i:m.start()]; i = m.end()
            flags, width, conv = m.group(1).decode(), m.group(2).decode(), m.group(3).decode()
            if conv == '%': out += b'%'; continue
            v = args[k] if k < len(args) else b''; k += 1
            if isinstance(v, bytes): s_ = v.decode('latin1')
            elif is_c(v):
                if conv == 'x': s_ = ('0x' if '#' in flags else '') + format(v & 0xffffffffffffffff, 'x')
                else: s_ = str(v if v < (1 << 63) else v - (1 << 64))
            else: s_ = '?'                  # a symbolic number inside diagnostic text
            if width:
                w = int(width); s_ = s_.ljust(w) if '-' in flags else s_.rjust(w, '0' if '0' in flags and conv != 's' else ' ')
            out += s_.encode('latin1')
        return out + fmt[i:]
    def strf(E_, st, a):
        fmt, args = table(st).get(key(a[1]), (b'', ()))
        args = tuple(sgn(v & 0xffffffff, 32) if (is_c(v) and v < (1 << 32)) else v for v in args)
        S = Str(E_, st, a[0]); S.init_local(); S.assign_bytes(list(render(fmt, args))); return a[0]
    E.stubs[PRE + 'C2EPKc'] = ctor; E.stubs[PRE + 'C1EPKc'] = ctor
    E.stubs[PRE + 'D2Ev'] = s_nop; E.stubs[PRE + 'D1Ev'] = s_nop
    E.stubs['_ZNK5boost12basic_formatIcSt11char_traitsIcESaIcEE3strB5cxx11Ev'] = strf
    E.prefix_stubs = list(E.prefix_stubs) + [(PRE + 'rm', feed)]
