# Value and state representation for irsym.
import z3
from .ir import Unsupported

def is_c(v): return isinstance(v, int)
def mask(w): return (1 << w) - 1
def sgn(v, w): return v - (1 << w) if v >> (w-1) else v
def bv(v, w): return z3.BitVecVal(v, w) if isinstance(v, int) else v

def simp(v):
    """simplify a z3 value; return python int when it is a numeral"""
    if isinstance(v, int): return v
    v = z3.simplify(v)
    if z3.is_bv_value(v): return v.as_long()
    return v

class Ptr:
    __slots__ = ('obj', 'off')
    def __init__(s, obj, off): s.obj, s.off = obj, off
    def __repr__(s): return f"Ptr({s.obj},{s.off})"
    def __eq__(s, o):
        return isinstance(o, Ptr) and s.obj == o.obj and (s.off is o.off or (is_c(s.off) and is_c(o.off) and s.off == o.off))
    def __ne__(s, o): return not s.__eq__(o)
    def __hash__(s): return hash((s.obj, s.off if is_c(s.off) else id(s.off)))
    def add(s, k): return Ptr(s.obj, s.off + k)

NULL = Ptr(0, 0)

class PtrIte:
    """select between two pointers under a symbolic condition (z3 Bool)"""
    __slots__ = ('c', 'a', 'b')
    def __init__(s, c, a, b): s.c, s.a, s.b = c, a, b
    def __repr__(s): return f"PtrIte({s.c},{s.a},{s.b})"

class Undef:
    """value read from memory that was never written (indeterminate)"""
    __slots__ = ('why',)
    def __init__(s, why): s.why = why
    def __repr__(s): return f"Undef({s.why})"

class RelPtr:
    """constant 'address of target minus address of base' (relative lookup tables): only meaningful to llvm.load.relative"""
    __slots__ = ('target',)
    def __init__(s, target): s.target = target
    def __repr__(s): return f"RelPtr({s.target})"

class PV:
    """integer value that is poison when cond (z3 Bool) holds"""
    __slots__ = ('v', 'c', 'why')
    def __init__(s, v, c, why): s.v, s.c, s.why = v, c, why
    def __repr__(s): return f"PV({s.v} poison-if {s.c}: {s.why})"

class Region:
    """SMT-array backed part of an object: cnt elements of esz bytes at byte offset base.
    Concrete-index writes live in an overlay dict on top of a z3 array."""
    __slots__ = ('base', 'esz', 'cnt', 'arr', 'over', '_full', 'isort')
    def __init__(s, base, esz, cnt, arr, over=None, isort=32):
        s.base, s.esz, s.cnt, s.arr, s.over, s._full, s.isort = base, esz, cnt, arr, dict(over or {}), None, isort
    def clone(s):
        r = Region(s.base, s.esz, s.cnt, s.arr, s.over, s.isort); r._full = s._full; return r
    def full(s):
        if s._full is None:
            a = s.arr
            for k in sorted(s.over): a = z3.Store(a, z3.BitVecVal(k, s.isort), bv(s.over[k], s.esz*8))
            s._full = a
        return s._full
    def get(s, idx):
        if is_c(idx):
            v = s.over.get(idx)
            if v is not None: return v
            return simp(z3.Select(s.arr, z3.BitVecVal(idx, s.isort)))
        return z3.Select(s.full(), idx)
    def put(s, idx, v):
        if is_c(idx):
            s.over[idx] = v; s._full = None
        else:
            s.arr = z3.Store(s.full(), idx, bv(v, s.esz*8)); s.over = {}; s._full = s.arr

class Obj:
    __slots__ = ('size', 'cells', 'regions', 'name', 'zero', 'func', 'tok', 'freed', 'const', 'guard')
    def __init__(s, size, name=''):
        s.size = size; s.cells = {}; s.regions = []; s.name = name; s.zero = []; s.func = None; s.tok = None
        s.freed = False; s.const = False; s.guard = None      # guard: [(lo, hi, what)] byte ranges whose access is an array overrun
    def clone(s):
        o = Obj(s.size, s.name); o.cells = dict(s.cells); o.regions = [r.clone() for r in s.regions]
        o.zero = list(s.zero); o.func = s.func; o.freed = s.freed; o.const = s.const; o.guard = s.guard; return o

class Frame:
    __slots__ = ('fn', 'env', 'bb', 'prev', 'ip', 'ret_to', 'inv', 'exc', 'code', 'allocas')
    def __init__(s, fn):
        s.fn = fn; s.env = {}; s.bb = None; s.prev = None; s.ip = 0; s.ret_to = None; s.inv = None; s.exc = None
        s.code = None; s.allocas = []
    def clone(s):
        f = Frame(s.fn); f.env = dict(s.env); f.bb, f.prev, f.ip, f.ret_to, f.inv, f.exc, f.code = s.bb, s.prev, s.ip, s.ret_to, s.inv, s.exc, s.code
        f.allocas = list(s.allocas); return f

class State:
    def __init__(s):
        s.objs = {}; s.nobj = 1; s.pc = []; s.frames = []; s.events = []; s.tok = object()
        s.model = None; s.x = {}; s.steps = 0; s.forced = []; s.caught = []
    def fork(s):
        n = State(); n.objs = dict(s.objs); n.nobj = s.nobj; n.pc = list(s.pc); n.events = list(s.events)
        n.frames = [f.clone() for f in s.frames]; n.model = s.model; n.x = dict(s.x); n.steps = s.steps
        n.caught = list(s.caught)
        s.tok = object()        # every existing object is now shared: copy on next write
        return n
    def alloc(s, size, name=''):
        i = s.nobj; s.nobj += 1; o = Obj(size, name); o.tok = s.tok; s.objs[i] = o; return Ptr(i, 0)
    def wobj(s, key):
        """object for writing (copy-on-write)"""
        o = s.objs[key]
        if o.tok is not s.tok:
            o = o.clone(); o.tok = s.tok; s.objs[key] = o
        return o

class CxxThrow(Exception):
    def __init__(s, obj, tinfo, dtor=None): s.obj, s.tinfo, s.dtor = obj, tinfo, dtor
class Violation(Exception):
    """property-relevant misbehaviour of the code under test on this path (UB, crash)"""
    def __init__(s, kind, msg, model=None): Exception.__init__(s, msg); s.kind, s.msg, s.model = kind, msg, model
class Budget(Exception): pass
class Abort(Exception):
    """program called abort/terminate/exit: an outcome, not an engine error"""
    def __init__(s, what, code=None): Exception.__init__(s, what); s.what, s.code = what, code
class Inconclusive(Exception): pass
