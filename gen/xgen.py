# Bounded-exhaustive generator of X programs for translation validation (DESIGN.md 4/C01, C07).
# Every program declares the designated globals s0, s1 first (their 32-bit initial values are symbolic in the check).
import itertools, random

HEAD = """val exit = 0; val put = 1; val get = 2; val five = 5; val big = 100000; val neg = 0 - 7;
var s0; var s1; var g; array a[4];
func f(val x) is return x + 1
func idf(val x) is return x
func second(val x, val y) is return y
func sum3(val x, val y, val z) is return x + (y + z)
func add2(val x, val y) is return x + y
"""
HEAD0 = "val exit = 0; val put = 1; val get = 2;\nvar s0; var s1;\n"      # no global arrays: the stack starts at the top of memory
BINOPS = ['+', '-', '=', '~=', '<', '<=', '>', '>=', 'and', 'or']
UNOPS = ['-', '~']
# leaves usable inside main (l, m are locals of main; a[1], a[2] assigned before)
LEAVES_MAIN = ['3', '0', '100000', 'five', 'neg', 's0', 's1', 'l', 'a[1]', 'a[m]', 'f(s0)', 'get(0)', '(1 + 2)', '(0 - 1)', 'true']
LEAVES_GLOBAL = ['3', '100000', 'five', 's0', 's1', 'f(s1)', '(1 + 2)']
BOOL_LEAVES = ['(s0 < s1)', '(s0 = 3)', 'true', 'false', '(l ~= 0)', '(s1 >= five)']

def paren(e): return e if (e.replace('_', 'a').isalnum() or (e.startswith('(') and e.endswith(')')) or e.endswith(')') or e.endswith(']')) else '(' + e + ')'

def binexpr(op, x, y):
    return f"{paren(x)} {op} {paren(y)}"

def contexts_main(e):
    """statement bodies for main with expression e in different syntactic positions"""
    return {
        'exit': f"0({e})",
        'ass-global': f"{{ g := {e}; 0(g) }}",
        'ass-local': f"{{ m := {e}; 0(m) }}",
        'ass-elem': f"{{ a[3] := {e}; 0(a[3]) }}",
        'if': f"if {e} then 0(1) else 0(2)",
        'actual1': f"0(idf({e}))",
        'actual2': f"0(second(1, {e}))",
        'actual-mid': f"0(sum3(s1, {e}, l))",
        'put-value': f"{{ put({e}, 0); 0(0) }}",
        'plus-left': f"0(({e}) + s1)",
        'plus-right': f"0(s1 + ({e}))",
        'minus-right': f"0(s1 - ({e}))",
        'not': f"if ~(({e}) = 0) then 0(1) else 0(2)",
    }

def wrap_main(body):
    return HEAD + f"proc main() is var l; var m; {{ l := s1; m := 2; a[1] := s0; a[2] := 7; {body} }}\n"

def wrap_formals(expr_with_p):
    """expression over formals p0, p1 of a procedure"""
    return HEAD + f"func q(val p0, val p1) is return {expr_with_p}\nproc main() is 0(q(s0, s1))\n"

def wrap_return(expr_global):
    return HEAD + f"func r() is return {expr_global}\nproc main() is 0(r())\n"

def expr_programs(depth2=True, full=False, seed=0):
    """(name, source) pairs: every operator x leaf placements x contexts, sampled deterministically unless full"""
    rnd = random.Random(seed)
    out = []
    ctxs = list(contexts_main('X').keys())
    k = 0
    # depth 1
    for op in BINOPS:
        leaves = BOOL_LEAVES if op in ('and', 'or') else LEAVES_MAIN
        pairs = list(itertools.product(leaves, leaves))
        if not full: pairs = rnd.sample(pairs, min(len(pairs), 14))
        for x, y in pairs:
            e = binexpr(op, x, y)
            cs = ctxs if full else [ctxs[k % len(ctxs)], ctxs[(k * 7 + 3) % len(ctxs)]]
            for c in dict.fromkeys(cs):
                out.append((f"expr:{e}:ctx={c}", wrap_main(contexts_main(e)[c])))
            k += 1
    for op in UNOPS:
        leaves = BOOL_LEAVES if op == '~' else LEAVES_MAIN
        for x in leaves:
            e = f"{op}{paren(x)}"
            for c in (ctxs if full else [ctxs[k % len(ctxs)]]):
                out.append((f"expr:{e}:ctx={c}", wrap_main(contexts_main(e)[c])))
            k += 1
    # depth 2: op1(leaf, op2(leaf, leaf)) and op1(op2(leaf, leaf), leaf)
    if depth2:
        arith = ['+', '-']; rel = ['=', '~=', '<', '<=', '>', '>=']
        small = ['3', 's0', 's1', 'l', 'a[1]', 'f(s0)', 'five', '100000']
        combos = []
        for op1 in BINOPS:
            for op2 in BINOPS:
                if op1 in ('and', 'or'):
                    if op2 not in rel + ['and', 'or']: continue
                elif op2 in ('and', 'or') and op1 not in ('=', '~='): continue
                combos.append((op1, op2))
        for (op1, op2) in combos:
            n = 6 if full else 2
            for _ in range(n):
                lv = BOOL_LEAVES if op2 in ('and', 'or') else small
                a_, b_ = rnd.choice(lv), rnd.choice(lv)
                c_ = rnd.choice(BOOL_LEAVES if op1 in ('and', 'or') else small)
                inner = '(' + binexpr(op2, a_, b_) + ')'
                for e in (binexpr(op1, c_, inner), binexpr(op1, inner, c_)):
                    c = ctxs[k % len(ctxs)]; k += 1
                    out.append((f"expr:{e}:ctx={c}", wrap_main(contexts_main(e)[c])))
        # constant sub-trees inside non-constant expressions (C07 placements)
        consts = ['(1 + 2)', '(five + 1)', '(0 - 1)', '(big + big)', '(3 < 4)', '(five = 5)', '(-five)', '(~false)', '(65535 + 1)', '(0 - 65536)', '(2147483647 - 0)']
        for cst in consts:
            for op in ['+', '-', '=', '<', '>=', '~=']:
                for e in (binexpr(op, 's0', cst), binexpr(op, cst, 's0')):
                    c = ctxs[k % len(ctxs)]; k += 1
                    out.append((f"expr:{e}:ctx={c}", wrap_main(contexts_main(e)[c])))
    # expressions that need stack temporaries (a right operand that is itself an operation), alone and beside calls in actual lists
    temp_exprs = ['s0 - (s1 + l)', '(s0 - (s1 + l)) - (l + 3)', '(s0 + s1) - (l - s1)', 's0 - (s1 - (l - 3))', '(s0 - s1) < (l + s1)',
                  's0 + (a[1] - (l + 2))', '(s0 - (l + 1)) = (s1 - (l + 2))', 'f(s0) - (s1 + f(l))', '(s0 - (s1 + 1)) + (l - (s1 + 2))']
    temp_ctxs = {
        'actual1-before-call': lambda e: f"0(add2({e}, f(s1)))",
        'actual2-after-call': lambda e: f"0(add2(f(s1), {e}))",
        'actual2-after-const': lambda e: f"0(second(50, {e}))",
        'actual-mid-calls': lambda e: f"0(sum3(f(s0), {e}, f(l)))",
        'two-temps': lambda e: f"0(add2({e}, {e}))",
        'nested-call': lambda e: f"0(f(add2({e}, idf(s1))))",
        'put-then-exit': lambda e: f"{{ put({e}, 0); 0({e}) }}",
        'elem-index': lambda e: f"{{ a[2] := 9; 0(a[2] + ({e})) }}",
        'while-cond': lambda e: f"{{ m := 0; while (m < 2) and (({e}) ~= 12345) do m := m + 1; 0(m) }}",
    }
    for e in temp_exprs:
        for cn, cf in temp_ctxs.items():
            out.append((f"temps:{e}:ctx={cn}", wrap_main(cf(e))))
    # formals and function results
    for op in BINOPS:
        lv = ['(p0 < p1)', '(p1 = 0)'] if op in ('and', 'or') else ['p0', 'p1', '3', 'f(p0)']
        for x, y in (itertools.product(lv, lv) if full else [(lv[0], lv[1]), (lv[1], lv[0]), (lv[0], lv[-1])]):
            e = binexpr(op, x, y)
            out.append((f"formals:{e}", wrap_formals(e)))
    for op in ['+', '-', '<', '=']:
        for x, y in [('s0', 's1'), ('s1', '(1 + 2)'), ('f(s1)', 's0')]:
            e = binexpr(op, x, y); out.append((f"return:{e}", wrap_return(e)))
    return out

SKELETONS = {
 'seq-if-while': HEAD + "proc main() is var i; var t; { i := 0; t := 0; while i < 3 do { if (i = 1) then t := t + s0 else t := t + 1; i := i + 1 }; 0(t) }",
 'nested-if': HEAD + "proc main() is if s0 < s1 then if s0 = 0 then 0(1) else 0(2) else if s1 = 0 then 0(3) else 0(4)",
 'nested-while': HEAD + "proc main() is var i; var j; var t; { i := 0; t := 0; while i < 2 do { j := 0; while j < 2 do { t := t + s0; j := j + 1 }; i := i + 1 }; 0(t) }",
 'recursion-fac': HEAD + "func fac(val n) is if n = 0 then return 1 else return n + fac(n - 1) proc main() is var n; { n := get(0); if n < 4 then 0(fac(n) + s0) else 0(0) }",
 'recursion-fib': HEAD + "func fib(val n) is if n < 2 then return n else return fib(n - 1) + fib(n - 2) proc main() is var n; { n := get(0); if n < 5 then 0(fib(n)) else 0(s0) }",
 'mutual-proc': HEAD + "proc p1(val n) is if n = 0 then skip else { put('a', 0); p2(n - 1) } proc p2(val n) is if n = 0 then skip else { put('b', 0); p1(n - 1) } proc main() is { p1(3); 0(s0) }",
 'array-formal': HEAD + "proc fill(array b, val n) is var i; { i := 0; while i < n do { b[i] := i + s0; i := i + 1 } } func pick(array b, val i) is return b[i] proc main() is { fill(a, 4); 0(pick(a, 2) + pick(a, 3)) }",
 'array-symbolic-index': HEAD + "proc main() is var i; { a[0] := 10; a[1] := 11; a[2] := 12; a[3] := s0; i := get(0); if i < 4 then 0(a[i]) else 0(a[3]) }",
 'string-len': HEAD + "func len(array s) is return s[0] proc main() is 0(len(\"hello\") + s0)",
 'string-empty': HEAD + "func first(array s) is return s[0] proc main() is 0(first(\"\") + s0)",
 'string-second-actual': HEAD + "func w(val k, array s) is return s[k] proc main() is 0(w(1, \"abcdefg\"))",
 'string-two': HEAD + "func w(array s, array t) is return s[0] + t[1] proc main() is 0(w(\"ab\", \"cdefgh\"))",
 'print-string': HEAD + "proc prints(array s) is var n; { n := 0; while n < 2 do { put(s[n], 0); n := n + 1 } } proc main() is { prints(\"hello!!\"); 0(s0) }",
 'temp-before-call': HEAD + "proc main() is 0(sum3(s0 + s1, f(s0), s1 - 1))",
 'call-in-call': HEAD + "proc main() is 0(second(f(s0), f(f(s1))))",
 'eq-in-actual-with-call': HEAD + "proc main() is 0(idf(f(s0) = 2))",
 'eq-call-exit': HEAD + "proc main() is 0(f(1) = 2)",
 'subscript-call': HEAD + "proc main() is { a[0] := 1; a[1] := 2; a[2] := s0; 0(a[f(0)] + a[idf(2)]) }",
 'subscript-side-effect': HEAD + "func bump() is { g := g + 1; return g } proc main() is { g := 0; a[1] := 5; a[2] := 6; a[bump()] := s0; 0(a[1] + g) }",
 'subscript-impure-call': HEAD + "func nx() is { put('n', 0); return 1 } proc main() is { a[1] := s0; 0(a[nx()]) }",
 'subscript-impure-call-lhs': HEAD + "func nx() is { put('n', 0); return 1 } proc main() is { a[nx()] := s0; 0(a[1]) }",
 'actual-impure-call': HEAD + "func nx() is { put('n', 0); return 1 } proc main() is 0(second(s0, nx()))",
 'if-impure-cond': HEAD + "func nx() is { put('n', 0); return s0 } proc main() is if nx() then 0(1) else 0(2)",
 'while-impure-cond': HEAD + "func nx() is { put('n', 0); g := g + 1; return g < 3 } proc main() is { g := 0; while nx() do skip; 0(g) }",
 'elem-assign-expr-index': HEAD + "proc main() is var i; { i := 1; a[i + 1] := s0 + 1; a[i] := a[i + 1] + 1; 0(a[1] - a[2]) }",
 'name-lab0': HEAD + "proc lab0() is skip proc main() is { lab0(); 0(s0) }",
 'name-start': HEAD + "proc start() is skip proc main() is { start(); 0(s0) }",
 'name-lab-var': "var s0; var s1; var lab7; proc main() is { lab7 := s0; 0(lab7 + s1) }",
 'scope-shadow': HEAD + "func sh(val g) is return g + 1 proc main() is var s1; { g := 5; s1 := 2; 0(sh(s0) + g + s1) }",
 'local-val': HEAD + "proc main() is val k = 7; var x; { x := k + s0; 0(x - k) }",
 'local-val-var-call': HEAD + "proc main() is val k = 1; var i; { i := s0; put('a', 0); put('b', 0); 0(i + k) }",
 'local-val-var-temp': HEAD + "proc main() is val k = 3; var i; var j; { i := s0; j := s1; j := j - (i + k); 0(i - (j + k)) }",
 'local-val-var-copy': HEAD.replace("array a[4];", "array a[4]; array src[4];") + "proc main() is val step = 1; var i; { src[0] := 5; src[1] := s0; src[2] := 7; src[3] := 8; i := 0; while i < 4 do { a[i] := src[i]; i := i + step }; 0(a[1] + a[3]) }",
 'local-two-vals-vars': HEAD + "func t(val p) is val a1 = 1; val a2 = 2; var x; var y; { x := p + a1; y := f(x) + a2; return x + y } proc main() is 0(t(s0))",
 'local-val-in-func-call': HEAD + "func t(val p) is val one = 1; var x; { x := p; put('q', 0); return x + one } proc main() is 0(t(s0) + t(s1))",
 'noarr-stop-only': HEAD0 + "proc main() is stop",
 'noarr-skip-main': HEAD0 + "proc main() is skip",
 'noarr-stop-leaf': HEAD0 + "proc leaf() is stop proc main() is leaf()",
 'noarr-stop-leaf-arg': HEAD0 + "proc leaf(val x) is if x = 0 then stop else skip proc main() is { leaf(s0); leaf(0) }",
 'noarr-stop-if': HEAD0 + "proc main() is if s0 = 0 then stop else skip",
 'noarr-stop-local': HEAD0 + "proc main() is var x; { x := s0; if x = s1 then stop else skip }",
 'noarr-exit-leaf': HEAD0 + "proc leaf(val x) is exit(x) proc main() is leaf(s0)",
 'noarr-main-calls-return': HEAD0 + "func one() is return 1 proc main() is var x; x := one()",
 'noarr-put-return': HEAD0 + "proc main() is put('q', 0)",
 'stop-only': HEAD + "proc main() is stop",
 'stop-leaf': HEAD + "proc leaf() is stop proc main() is leaf()",
 'stop-leaf-arg': HEAD + "proc leaf(val x) is if x = 0 then stop else skip proc main() is { leaf(s0); leaf(0) }",
 'stop-if': HEAD + "proc main() is if s0 = 0 then stop else skip",
 'stop-in-func': HEAD + "func g1(val x) is { if x = 1 then stop else skip; return x } proc main() is var r; { r := g1(s0); r := r + g1(s1); 0(r) }",
 'skip-main': HEAD + "proc main() is skip",
 'stop': HEAD + "proc main() is { put('x', 0); if s0 = 0 then stop else skip; put('y', 0) }",
 'main-returns': HEAD + "proc main() is put('z', 0)",
 'proc-returns': HEAD + "proc noop(val x) is skip proc main() is { noop(s0); noop(s1); 0(3) }",
 'ten-args': HEAD + "func t10(val a0, val a1, val a2, val a3, val a4, val a5, val a6, val a7, val a8, val a9) is return a0 + (a9 - a1) proc main() is 0(t10(s0, s1, 2, 3, 4, 5, 6, 7, 8, 9))",
 'echo': HEAD + "proc main() is var c; { c := get(0); put(c, 0); c := get(0); put(c + 1, 0); 0(c) }",
 'get-eof': HEAD + "proc main() is var c; var d; { c := get(0); d := get(0); d := get(0); 0(d) }",
 'put-stream': HEAD + "proc main() is { put('q', 255); put('r', 0); 0(s0) }",
 'compare-chain': HEAD + "proc main() is if (s0 < s1) and ((s0 + 1) <= s1) and (s1 > 0) then 0(1) else 0(0)",
 'or-chain': HEAD + "proc main() is if (s0 = 1) or (s0 = 2) or (s1 = 3) then 0(1) else 0(0)",
 'plus-chain': HEAD + "proc main() is 0(s0 + 1 + s1 + 2 + five)",
 'neg-const-pool': HEAD + "proc main() is 0(s0 + (0 - 100000))",
 'large-const': HEAD + "proc main() is if s0 = 2147483647 then 0(1) else if s0 = #80000000 then 0(2) else 0(big)",
 'unary-minus-var': HEAD + "proc main() is 0(-s0)",
 'not-var': HEAD + "proc main() is if ~(s0 = s1) then 0(1) else 0(0)",
 'while-false': HEAD + "proc main() is { while false do skip; 0(s0) }",
 'if-const': HEAD + "proc main() is if true then 0(s0) else 0(s1)",
 'deep-recursion': HEAD + "func down(val n) is if n = 0 then return 0 else return 1 + down(n - 1) proc main() is 0(down(40) + s0)",
 'global-array-top': "var s0; var s1; array big[100]; proc main() is { big[99] := s0; big[0] := s1; 0(big[99] - big[0]) }",
}

def stmt_programs(full=False, seed=0):
    """control-flow structures: statement trees of depth <= 3 in a function body, with markers written to the output so
    that the order of execution is observable; conditions over the symbolic arguments"""
    rnd = random.Random(seed + 7)
    conds = ['p < q', 'p = 0', 'q = 1', '(p + 1) = q', 'p ~= q', '(p < 3) and (q < 3)', 'p >= 2']
    def gen(depth, k, top):
        """yield (statement text, number of markers used) of the given depth; k = next marker index.
        The thorough tier is exhaustive at depth 1 and samples wider below (the full set grows doubly exponentially)."""
        m = lambda i: f"put({65 + i % 26}, 0)"
        leaves = [(m(k), 1), (f"return {100 + k}", 0), ("stop", 0), (f"t := t + {k + 1}", 0), ("skip", 0)]
        if depth == 0:
            for x in leaves: yield x
            return
        subs = list(gen(depth - 1, k + 1, top))
        exhaustive = full and top == 1
        nsub, ncond, nb = (12, 4, 4) if full else (4, 2, 2)
        if not exhaustive: subs = rnd.sample(subs, min(len(subs), nsub))
        for c in (conds if exhaustive else rnd.sample(conds, ncond)):
            for a, na in subs:
                for b, nb_ in (subs if exhaustive else rnd.sample(subs, min(len(subs), nb))):
                    yield (f"if {c} then {a} else {b}", na + nb_)
        for a, na in subs:
            yield (f"{{ i := 0; while i < 2 do {{ {a}; i := i + 1 }} }}", na)
            for b, nb_ in (subs if exhaustive else rnd.sample(subs, min(len(subs), nb))):
                yield (f"{{ {a}; {b} }}", na + nb_)
                yield (f"{{ {m(k)}; {a}; {b}; {m(k + 5)} }}", na + nb_ + 2)
    out = []; seen = set()
    for depth in (1, 2, 3):
        items = list(gen(depth, 0, depth))
        if not full: items = rnd.sample(items, min(len(items), 60 if depth < 3 else 90))
        for body, nm in items:
            if body in seen: continue
            seen.add(body)
            src = HEAD + f"func body(val p, val q) is var i; var t; {{ t := 0; {body}; return t + 7 }}\nproc main() is 0(body(s0, s1))\n"
            out.append((f"stmt:{body}", src))
    return out

def programs(tier='quick', seed=0):
    ex = expr_programs(depth2=True, full=(tier == 'thorough'), seed=seed)
    sk = [('skeleton:' + k, v) for k, v in SKELETONS.items()]
    return sk + ex + stmt_programs(full=(tier == 'thorough'), seed=seed)
