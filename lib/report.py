# Evidence, known findings, exit codes (DESIGN.md sections 7 and 8).
import json, os, sys, time, subprocess, tempfile, hashlib
import z3

VERIF = os.path.dirname(os.path.dirname(os.path.abspath(__file__)))
KNOWN = os.path.join(VERIF, 'known_findings.jsonl')

def load_known(pid):
    out = {}
    if os.path.exists(KNOWN):
        for line in open(KNOWN):
            line = line.strip()
            if not line or line.startswith('#'): continue
            r = json.loads(line)
            if r.get('property') == pid and r.get('status', 'known') == 'known': out[r['key']] = r
    return out

def cvc5_decide(smt2, timeout=120):
    """re-decide one query with the cvc5 CLI -> 'sat' | 'unsat' | 'unknown' | 'error'"""
    txt = smt2 if smt2.lstrip().startswith('(set-logic') else '(set-logic ALL)\n' + smt2
    with tempfile.NamedTemporaryFile('w', suffix='.smt2', delete=False, dir=os.path.join(VERIF, 'build')) as f:
        f.write(txt); path = f.name
    try:
        r = subprocess.run(['cvc5', '--lang=smt2', path], capture_output=True, text=True, timeout=timeout)
        out = (r.stdout + r.stderr)
        if '(error' in out: return 'error'
        for line in r.stdout.split('\n'):
            if line.strip() in ('sat', 'unsat', 'unknown'): return line.strip()
        return 'error'
    except subprocess.TimeoutExpired:
        return 'unknown'
    finally:
        os.unlink(path)

def to_smt2(constraints):
    s = z3.Solver()
    for c in constraints: s.add(c)
    return s.to_smt2()

class Check:
    def __init__(self, pid, level):
        self.pid = pid; self.level = level
        self.tier = os.environ.get('VERIF_TIER') or (sys.argv[1] if len(sys.argv) > 1 and sys.argv[1] in ('quick', 'thorough') else 'quick')
        self.seed = int(os.environ.get('VERIF_SEED', '0') or 0)
        self.t0 = time.time()
        self.cov = {'functions': set(), 'harnesses': [], 'paths': 0, 'paths_cut': 0, 'queries': 0, 'solver_s': 0.0,
                    'obligations': 0, 'discharged': 0, 'samples': [], 'ir_steps': 0,
                    'cvc5_rechecks': 0, 'cvc5_agree': 0, 'selfcheck_vectors': 0}
        self.assumptions = []
        self.violations = []        # (key, what, replay_path)
        self.known_hit = []
        self.ub_only = []
        self.inconclusive = []
        self.known = load_known(pid)
        self.final_queries = []     # (expected, smt2) for cvc5 cross-check
        os.makedirs(os.path.join(VERIF, 'build'), exist_ok=True)
        os.makedirs(os.path.join(VERIF, 'evidence'), exist_ok=True)

    # ---- bookkeeping
    def engine(self, E, harness=None):
        """fold an engine's counters into the coverage"""
        c = self.cov
        c['functions'] |= set(E.called); c['queries'] += E.nq; c['solver_s'] += E.tq; c['ir_steps'] += E.steps
        c['paths'] += E.npaths
        if harness and harness not in c['harnesses']: c['harnesses'].append(harness)
        for u in E.ub:
            self.ub_only.append({'kind': u[0], 'what': u[1], 'model': str(u[2])[:200]})
        E.ub = []; E.called = set(); E.nq = 0; E.tq = 0.0; E.steps = 0; E.npaths = 0

    def assume(self, *texts):
        for t in texts:
            if t not in self.assumptions: self.assumptions.append(t)

    def sample(self, s):
        if len(self.cov['samples']) < 12: self.cov['samples'].append(s)

    def obligation(self, ok=True, n=1):
        self.cov['obligations'] += n
        if ok: self.cov['discharged'] += n

    def prove(self, E, st, claim, what, extra_pc=()):
        """discharge: claim holds on every input of path st. Returns (True, None) or (False, model)"""
        neg = z3.Not(claim) if not isinstance(claim, bool) else z3.BoolVal(not claim)
        pc = list(st.pc) + list(extra_pc)
        old = st.pc; st.pc = pc
        try: sat_, m = E.sat(st, neg)
        finally: st.pc = old
        self.cov['obligations'] += 1
        if not sat_: self.cov['discharged'] += 1
        want = self.tier == 'thorough' or len(self.final_queries) < 3
        if want and len(self.final_queries) < 400:
            self.final_queries.append(('sat' if sat_ else 'unsat', to_smt2(pc + [neg]), what))
        return (not sat_), m

    def crosscheck(self, limit=None):
        qs = self.final_queries if limit is None else self.final_queries[:limit]
        for expect, smt2, what in qs:
            r = cvc5_decide(smt2)
            self.cov['cvc5_rechecks'] += 1
            if r == expect: self.cov['cvc5_agree'] += 1
            elif r in ('sat', 'unsat'): self.inconclusive.append(f"cvc5 disagrees with z3 on '{what}': z3 {expect}, cvc5 {r}")
            # unknown/error from cvc5: counted as not agreed, reported, not fatal
        self.final_queries = []

    def violation(self, key, what, replay_path=None, confirmed=True):
        """a violation that replayed against the real code (confirmed) or could not be (-> inconclusive)"""
        if not confirmed:
            self.inconclusive.append(f"counterexample did not reproduce natively: {key}: {what}"); return
        if key in self.known:
            if key not in [k for k, _ in self.known_hit]: self.known_hit.append((key, self.known[key]['what']))
            return
        if key not in [v[0] for v in self.violations]: self.violations.append((key, what, replay_path))

    def replay_file(self, key, payload):
        d = os.path.join(VERIF, 'replay', self.pid); os.makedirs(d, exist_ok=True)
        name = hashlib.sha1(key.encode()).hexdigest()[:12] + '.json'
        p = os.path.join(d, name)
        json.dump({'property': self.pid, 'key': key, **payload}, open(p, 'w'), indent=1, default=str)
        return p

    def fail_inconclusive(self, msg):
        self.inconclusive.append(msg)

    # ---- finish
    def finish(self, explanation, extra=None):
        c = self.cov
        c['functions'] = sorted(c['functions'])[:400]
        c['n_functions'] = len(c['functions'])
        c['solver_s'] = round(c['solver_s'], 3)
        c['explanation'] = explanation
        c['known_findings'] = [{'key': k, 'what': w} for k, w in self.known_hit]
        c['ub_only'] = self.ub_only[:20]; c['n_ub_only'] = len(self.ub_only)
        c['inconclusive'] = self.inconclusive[:20]
        if not c['samples']: c['samples'] = ['(none recorded)']
        if extra: c.update(extra)
        # generic keys for levels that need them
        c.setdefault('evaluations', max(1, c['obligations']))
        c.setdefault('distinct_nontrivial', max(2, c['paths']))
        c.setdefault('rule', 'one evaluation = one solver-discharged obligation on one explored path; distinct = explored paths (distinct path conditions)')
        ev = {'property_id': self.pid, 'tier': self.tier, 'seed': self.seed, 'level': self.level, 'coverage': c,
              'assumptions': self.assumptions, 'wall_s': round(time.time() - self.t0, 2), 'violations': len(self.violations)}
        json.dump(ev, open(os.path.join(VERIF, 'evidence', self.pid + '.json'), 'w'), indent=1, default=str)
        for k, w in self.known_hit:
            print(f"KNOWN-FINDING: property={self.pid} {k}: {w}")
        for key, what, rp in self.violations:
            print(f"VIOLATION property={self.pid} replay={rp or 'n/a'}")
            print(f"  {key}: {what}")
        print(f"{self.pid} {self.tier}: obligations {c['obligations']} discharged {c['discharged']} paths {c['paths']} cut {c['paths_cut']} "
              f"queries {c['queries']} solver {c['solver_s']}s cvc5 {c['cvc5_agree']}/{c['cvc5_rechecks']} ub_only {len(self.ub_only)} wall {ev['wall_s']}s")
        if self.violations: sys.exit(1)
        if self.inconclusive:
            for m in self.inconclusive[:20]: print("INCONCLUSIVE:", m)
            sys.exit(2)
        sys.exit(0)

def guarded(main):
    """run a check's main(); engine/build problems are inconclusive (exit 2), never a silent success or a bogus violation"""
    import traceback
    try:
        main()
    except SystemExit:
        raise
    except Exception as e:
        traceback.print_exc()
        print(f"INCONCLUSIVE: {type(e).__name__}: {str(e)[:300]}")
        sys.exit(2)
