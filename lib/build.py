# Build helpers: every artefact is rebuilt from /repo's current working tree.
# A build directory is keyed by the SHA-256 of every input (sources of /repo, the harness
# TU, the command line), so re-use is equivalent to rebuilding.
import hashlib, os, subprocess, glob, shutil, time, sys

REPO = os.environ.get('VERIF_REPO', '/repo')
VERIF = os.path.dirname(os.path.dirname(os.path.abspath(__file__)))
BUILD = os.path.join(VERIF, 'build')
IRFLAGS = ['-std=c++17', '-O1', '-fno-vectorize', '-fno-slp-vectorize', '-fno-unroll-loops',
           '-fno-access-control', '-DNDEBUG', '-S', '-emit-llvm', '-Wno-everything']
NATFLAGS = ['-std=c++17', '-O2', '-DNDEBUG', '-fno-access-control', '-w']
VL_INC = '/usr/share/verilator/include'

def repo_sources():
    fs = []
    for pat in ('*.hpp', '*.cpp', 'verilog/*', 'synth/*.v', 'CMakeLists.txt'):
        fs += glob.glob(os.path.join(REPO, pat))
    return sorted(f for f in fs if os.path.isfile(f))

_repo_hash = None
def repo_hash():
    global _repo_hash
    if _repo_hash is None:
        h = hashlib.sha256()
        for f in repo_sources():
            h.update(f.encode()); h.update(open(f, 'rb').read())
        _repo_hash = h.hexdigest()
    return _repo_hash

def _key(parts):
    h = hashlib.sha256(repo_hash().encode())
    for p in parts:
        if isinstance(p, str) and os.path.isfile(p): h.update(open(p, 'rb').read())
        h.update(str(p).encode())
    return h.hexdigest()[:20]

def _dir(kind, key):
    d = os.path.join(BUILD, f"{kind}-{key}")
    os.makedirs(d, exist_ok=True)
    return d

def _run(cmd, cwd=None, timeout=900):
    r = subprocess.run(cmd, cwd=cwd, capture_output=True, text=True, timeout=timeout)
    if r.returncode != 0:
        sys.stderr.write("BUILD FAILED: " + ' '.join(cmd) + "\n" + r.stdout[-3000:] + r.stderr[-6000:] + "\n")
        raise RuntimeError("build failed: " + cmd[0])
    return r

def prune(keep=40):
    """keep the newest build directories only"""
    try:
        ds = sorted((os.path.join(BUILD, d) for d in os.listdir(BUILD)), key=os.path.getmtime, reverse=True)
    except FileNotFoundError: return
    for d in ds[keep:]:
        shutil.rmtree(d, ignore_errors=True)

def ir(tu, extra=(), includes=()):
    """compile a harness TU (path relative to /verif/harness or absolute) to textual IR; returns .ll path"""
    src = tu if os.path.isabs(tu) else os.path.join(VERIF, 'harness', tu)
    inc = ['-I' + REPO, '-I' + os.path.join(VERIF, 'harness')] + ['-I' + i for i in includes]
    cmd = ['clang++-14'] + IRFLAGS + list(extra) + inc
    d = _dir('ir', _key([src] + cmd + [open(f, 'rb').read() for f in glob.glob(os.path.join(VERIF, 'harness', '*.h*'))]))
    out = os.path.join(d, os.path.basename(src).rsplit('.', 1)[0] + '.ll')
    if not os.path.exists(out):
        _run(cmd + [src, '-o', out + '.tmp']); os.replace(out + '.tmp', out)
    os.utime(d)
    return out

def ir_c(src, extra=()):
    """compile a C file to IR with clang-14 -O1"""
    src = src if os.path.isabs(src) else os.path.join(VERIF, src)
    cmd = ['clang-14', '-O1', '-fno-vectorize', '-fno-slp-vectorize', '-fno-unroll-loops', '-S', '-emit-llvm', '-Wno-everything'] + list(extra)
    d = _dir('irc', _key([src] + cmd))
    out = os.path.join(d, os.path.basename(src).rsplit('.', 1)[0] + '.ll')
    if not os.path.exists(out):
        _run(cmd + [src, '-o', out + '.tmp']); os.replace(out + '.tmp', out)
    os.utime(d)
    return out

def native(tu, extra=(), includes=(), libs=(), name=None, srcs=()):
    """compile a harness TU natively with the flags of the pinned release build; returns executable path"""
    src = tu if os.path.isabs(tu) else os.path.join(VERIF, 'harness', tu)
    inc = ['-I' + REPO, '-I' + os.path.join(VERIF, 'harness')] + ['-I' + i for i in includes]
    cmd = ['g++'] + NATFLAGS + list(extra) + inc
    d = _dir('nat', _key([src] + cmd + list(libs) + list(srcs) + [open(f, 'rb').read() for f in glob.glob(os.path.join(VERIF, 'harness', '*.h*'))]))
    out = os.path.join(d, name or os.path.basename(src).rsplit('.', 1)[0])
    if not os.path.exists(out):
        _run(cmd + [src] + list(srcs) + ['-o', out + '.tmp'] + list(libs)); os.replace(out + '.tmp', out)
    os.utime(d)
    return out

def tool(name):
    """build one of the repository's executables (hexasm, hexsim, xcmp, xrun) from the working tree"""
    srcs = [os.path.join(REPO, 'hex.cpp'), os.path.join(REPO, name + '.cpp')]
    cmd = ['g++', '-std=c++17', '-O2', '-DNDEBUG', '-w', '-I' + REPO]
    d = _dir('tool', _key(cmd + [name]))
    out = os.path.join(d, name)
    if not os.path.exists(out):
        _run(cmd + srcs + ['-o', out + '.tmp']); os.replace(out + '.tmp', out)
    os.utime(d)
    return out

def tool_san(name):
    """one of the repository's executables built with AddressSanitizer + UndefinedBehaviourSanitizer (native confirmation of
    crashes and undefined behaviour the engine reports)"""
    srcs = [os.path.join(REPO, 'hex.cpp'), os.path.join(REPO, name + '.cpp')]
    cmd = ['clang++-14', '-std=c++17', '-O1', '-g', '-w', '-fsanitize=address,undefined', '-fno-sanitize-recover=all', '-fno-omit-frame-pointer', '-I' + REPO]
    d = _dir('toolsan', _key(cmd + [name]))
    out = os.path.join(d, name)
    if not os.path.exists(out):
        _run(cmd + srcs + ['-o', out + '.tmp']); os.replace(out + '.tmp', out)
    os.utime(d)
    return out

def verilate(top, sources, prefix, extra=()):
    """run verilator --cc on sources from /repo; returns the obj dir with generated C++"""
    srcs = [s if os.path.isabs(s) else os.path.join(REPO, s) for s in sources]
    cmd = ['verilator', '--cc', '--top-module', top, '--prefix', prefix] + list(extra)
    d = _dir('vl', _key(cmd + srcs))
    if not os.path.exists(os.path.join(d, prefix + '.h')):
        _run(cmd + ['--Mdir', d] + srcs)
    os.utime(d)
    return d

def tool_hextb():
    """build hextb (Verilated RTL + testbench) from the working tree with the arguments of the CMake build"""
    srcs = ['verilog/hex_pkg.sv', 'verilog/hex.sv', 'verilog/processor.sv', 'verilog/memory.sv']
    d = verilate('hex', srcs, 'Vhex_pkg', extra=['--trace'])
    import glob as _g
    cpps = sorted(_g.glob(os.path.join(d, 'Vhex_pkg*.cpp')))
    vl = [os.path.join(VL_INC, f) for f in ('verilated.cpp', 'verilated_vcd_c.cpp', 'verilated_threads.cpp')]
    cmd = ['g++', '-std=c++17', '-O1', '-DNDEBUG', '-w', '-I' + REPO, '-I' + d, '-I' + VL_INC, '-I' + os.path.join(VL_INC, 'vltstd')]
    out_d = _dir('hextb', _key(cmd + cpps + [os.path.join(REPO, 'hextb.cpp')]))
    out = os.path.join(out_d, 'hextb')
    if not os.path.exists(out):
        _run(cmd + [os.path.join(REPO, 'hextb.cpp'), os.path.join(REPO, 'hex.cpp')] + cpps + vl + ['-o', out + '.tmp', '-lpthread'], timeout=1800)
        os.replace(out + '.tmp', out)
    os.utime(out_d)
    return out
