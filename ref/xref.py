#!/usr/bin/env python3
# Reference semantics of the X language, written from docs/PDFs/xhexnotes.pdf and the system-call convention of the
# shipped programs (0 = exit, 1 = put, 2 = get). Own lexer, parser and evaluator over z3 terms; shares no code with xcmp.
# Values are 32-bit two's-complement; programs/paths outside the well-defined subset raise Undefined (see DESIGN.md 4/C01).
import re, z3

KW = {'and', 'array', 'do', 'else', 'false', 'func', 'if', 'is', 'or', 'proc', 'return', 'skip', 'stop', 'then', 'true', 'val', 'var', 'while'}
M32 = (1 << 32) - 1
ESC = {'n': 10, 't': 9, 'r': 13, "'": 39, '"': 34, '\\': 92}

class XSyntax(Exception): pass
class Undefined(Exception): pass        # program/path outside the well-defined subset
class Budget(Exception): pass
class Exit(Exception):
    def __init__(s, v): s.v = v
class Ret(Exception):
    def __init__(s, v): s.v = v

def lex(src):
    out = []; i = 0; n = len(src)
    while i < n:
        c = src[i]
        if c.isspace(): i += 1; continue
        if c == '|':
            while i < n and src[i] != '\n': i += 1
            continue
        if c.isalpha():
            j = i + 1
            while j < n and (src[j].isalnum() or src[j] == '_'): j += 1
            w = src[i:j]; out.append(('kw', w) if w in KW else ('id', w)); i = j; continue
        if c.isdigit():
            j = i
            while j < n and src[j].isdigit(): j += 1
            out.append(('num', int(src[i:j]) & M32)); i = j; continue
        if c == '#':
            j = i + 1
            while j < n and src[j].isalnum(): j += 1
            out.append(('num', int(src[i+1:j], 16) & M32)); i = j; continue
        if c == "'":
            if src[i+1] == '\\': v = ESC[src[i+2]]; j = i + 3
            else: v = ord(src[i+1]); j = i + 2
            if src[j] != "'": raise XSyntax("char constant")
            out.append(('num', v)); i = j + 1; continue
        if c == '"':
            j = i + 1; s = []
            while src[j] != '"':
                if src[j] == '\\': s.append(ESC[src[j+1]]); j += 2
                else: s.append(ord(src[j])); j += 1
            out.append(('str', bytes(s))); i = j + 1; continue
        two = src[i:i+2]
        if two in (':=', '<=', '>=', '~='): out.append(('op', two)); i += 2; continue
        if c in '[](){};,+-=<>~': out.append(('op', c)); i += 1; continue
        raise XSyntax("unexpected character " + c)
    out.append(('eof', None)); return out

class Parser:
    def __init__(s, toks): s.t = toks; s.i = 0
    def peek(s): return s.t[s.i]
    def next(s): x = s.t[s.i]; s.i += 1; return x
    def accept(s, k, v=None):
        if s.t[s.i][0] == k and (v is None or s.t[s.i][1] == v): s.i += 1; return True
        return False
    def expect(s, k, v=None):
        if not s.accept(k, v): raise XSyntax(f"expected {k} {v} got {s.t[s.i]}")
    def program(s):
        gl = []
        while s.peek() in (('kw', 'val'), ('kw', 'var'), ('kw', 'array')): gl.append(s.decl())
        procs = {}; order = []
        while s.peek() in (('kw', 'proc'), ('kw', 'func')):
            p = s.procdecl()
            if p['name'] in procs: raise Undefined("procedure declared twice")
            procs[p['name']] = p; order.append(p['name'])
        s.expect('eof'); return gl, procs, order
    def decl(s):
        k = s.next()[1]; name = s.next()[1]
        if k == 'val': s.expect('op', '='); e = s.expr(); s.expect('op', ';'); return ('val', name, e)
        if k == 'var': s.expect('op', ';'); return ('var', name)
        s.expect('op', '['); e = s.expr(); s.expect('op', ']'); s.expect('op', ';'); return ('array', name, e)
    def procdecl(s):
        isf = s.next()[1] == 'func'; name = s.next()[1]; s.expect('op', '(')
        formals = []
        if not s.accept('op', ')'):
            while True:
                k = s.next()[1]; formals.append((k, s.next()[1]))
                if not s.accept('op', ','): break
            s.expect('op', ')')
        s.expect('kw', 'is'); decls = []
        while s.peek() in (('kw', 'val'), ('kw', 'var')): decls.append(s.decl())
        return dict(name=name, func=isf, formals=formals, decls=decls, body=s.stmt())
    def stmt(s):
        if s.accept('kw', 'skip'): return ('skip',)
        if s.accept('kw', 'stop'): return ('stop',)
        if s.accept('kw', 'return'): return ('return', s.expr())
        if s.accept('kw', 'if'):
            c = s.expr(); s.expect('kw', 'then'); a = s.stmt(); s.expect('kw', 'else'); return ('if', c, a, s.stmt())
        if s.accept('kw', 'while'):
            c = s.expr(); s.expect('kw', 'do'); return ('while', c, s.stmt())
        if s.accept('op', '{'):
            ss = [s.stmt()]
            while s.accept('op', ';'): ss.append(s.stmt())
            s.expect('op', '}'); return ('seq', ss)
        e = s.element()
        if e[0] in ('call', 'syscall'): return ('callstmt', e)
        s.expect('op', ':='); return ('ass', e, s.expr())
    def expr(s):
        if s.accept('op', '-'): return ('neg', s.element())
        if s.accept('op', '~'): return ('not', s.element())
        e = s.element()
        p = s.peek()
        if (p[0] == 'op' and p[1] in ('+', '-', '=', '~=', '<', '<=', '>', '>=')) or p in (('kw', 'and'), ('kw', 'or')):
            op = s.next()[1]; return ('bin', op, e, s.rhs(op))
        return e
    def rhs(s, op):
        e = s.element()
        p = s.peek()
        if op in ('+', 'and', 'or') and p[1] == op and p[0] in ('op', 'kw'):
            s.next(); return ('bin', op, e, s.rhs(op))
        return e
    def args(s):
        a = []
        if s.accept('op', ')'): return a
        while True:
            a.append(s.expr())
            if not s.accept('op', ','): break
        s.expect('op', ')'); return a
    def element(s):
        k, v = s.next()
        if k == 'id':
            if s.accept('op', '['): e = s.expr(); s.expect('op', ']'); return ('sub', v, e)
            if s.accept('op', '('): return ('call', v, s.args())
            return ('name', v)
        if k == 'num':
            if s.accept('op', '('): return ('syscall', v, s.args())
            return ('num', v)
        if k == 'str': return ('str', v)
        if (k, v) == ('kw', 'true'): return ('num', 1)
        if (k, v) == ('kw', 'false'): return ('num', 0)
        if (k, v) == ('op', '('): e = s.expr(); s.expect('op', ')'); return e
        raise XSyntax(f"element {k} {v}")

def parse(src): return Parser(lex(src)).program()

def pack_string(b):
    """string literal as an array: length byte then the characters, four to a word, little end first"""
    bs = bytes([len(b) & 0xff]) + b
    bs += bytes((-len(bs)) % 4)
    return [int.from_bytes(bs[i:i+4], 'little') for i in range(0, len(bs), 4)]

def isc(x): return isinstance(x, int)
def B(x): return z3.BitVecVal(x & M32, 32) if isc(x) else x
def sg(x): return x - (1 << 32) if x >> 31 else x

# ---------------------------------------------------------------- static analysis: purity (for evaluation-order exclusions)
def effects(prog):
    """per procedure: does it (transitively) perform I/O, exit, or assign global variables / array elements"""
    gl, procs, order = prog
    gvars = {d[1] for d in gl if d[0] == 'var'}; vals = {d[1]: d[2] for d in gl if d[0] == 'val'}
    direct = {}; calls = {}
    def walk(n, p, locals_):
        k = n[0]
        if k in ('syscall', 'stop'): direct[p] = True          # stop ends the program: an effect whose position in the evaluation order is observable
        if k == 'call':
            if n[1] in vals or n[1] not in procs: direct[p] = True      # syscall through a val name / unknown
            else: calls[p].add(n[1])
        if k == 'ass':
            t = n[1]
            if t[0] == 'sub' or t[1] not in locals_: direct[p] = True
        for c in n[1:]:
            if isinstance(c, tuple): walk(c, p, locals_)
            elif isinstance(c, list):
                for x in c:
                    if isinstance(x, tuple): walk(x, p, locals_)
    for name, p in procs.items():
        direct[name] = False; calls[name] = set()
        locals_ = {f[1] for f in p['formals'] if f[0] == 'val'} | {d[1] for d in p['decls']}
        walk(p['body'], name, locals_)
        for d in p['decls']:
            if d[0] == 'val': walk(d[2], name, locals_)
    changed = True
    while changed:
        changed = False
        for name in procs:
            if not direct[name] and any(direct.get(c, True) for c in calls[name]): direct[name] = True; changed = True
    return direct

def has_impure_call(n, impure, vals):
    if not isinstance(n, tuple): return False
    if n[0] == 'syscall': return True
    if n[0] == 'call' and (n[1] in vals or impure.get(n[1], True)): return True
    for c in n[1:]:
        if isinstance(c, tuple) and has_impure_call(c, impure, vals): return True
        if isinstance(c, list) and any(has_impure_call(x, impure, vals) for x in c): return True
    return False

def has_call(n):
    if not isinstance(n, tuple): return False
    if n[0] in ('call', 'syscall'): return True
    return any((isinstance(c, tuple) and has_call(c)) or (isinstance(c, list) and any(has_call(x) for x in c)) for c in n[1:])

class Run:
    """one execution of the reference semantics under a forced decision prefix"""
    MAXDEPTH = 48
    def __init__(s, prog, sym_globals, inputs, decisions, solver, max_steps=20000, deadline=None):
        s.gl, s.procs, s.order = prog; s.sym = sym_globals; s.inputs = inputs; s.dec = list(decisions); s.taken = []
        s.pc = []; s.events = []; s.solver = solver; s.pending = []; s.steps = 0; s.max_steps = max_steps; s.nin = 0; s.depth = 0
        s.calls = []       # procedure entry sequence (C15)
        s.deadline = deadline
        s.G = {}; s.A = {}; s.V = {}; s.S = {}
        s.impure = effects(prog)
        for d in s.gl:
            if d[0] == 'val': s.V[d[1]] = s.const(d[2])
            elif d[0] == 'var': s.G[d[1]] = s.sym.get(d[1])
            else:
                n = s.const(d[2])
                if not 0 < sg(n) <= 100000: raise Undefined("array size")
                s.A[d[1]] = [None] * n
    def const(s, e):
        v = s.ev(e, {})
        if not isc(v): raise Undefined("non-constant")
        return v
    def sat(s, c):
        s.solver.push(); s.solver.add(*s.pc); s.solver.add(c); r = s.solver.check(); s.solver.pop()
        if r == z3.unknown: raise Budget()
        return r == z3.sat
    def assume(s, c):
        c = z3.simplify(c)
        if z3.is_true(c): return
        if z3.is_false(c) or not s.sat(c): raise Undefined("no defined input left on this path")
        s.pc.append(c); s.nassumed = getattr(s, 'nassumed', 0) + 1
    def branch(s, cond):
        if isinstance(cond, bool): return cond
        cond = z3.simplify(cond)
        if z3.is_true(cond): return True
        if z3.is_false(cond): return False
        if s.dec: d = s.dec.pop(0)
        else:
            t, f = s.sat(cond), s.sat(z3.Not(cond))
            if t and f: s.pending.append(s.taken + [False]); d = True
            elif t or f: d = t
            else: raise Undefined("infeasible")
        s.taken.append(d); s.pc.append(cond if d else z3.Not(cond)); return d
    def pick(s, v, lo, hi, what):
        """fork over the feasible concrete values of v in [lo, hi)"""
        if isc(v): return v
        for k in range(lo, hi):
            if s.branch(v == k): return k
        raise Undefined(what)
    def boolean(s, v):
        if isc(v):
            if v not in (0, 1): raise Undefined("non-boolean operand of a logical operator")
        else: s.assume(z3.Or(v == 0, v == 1))
    def addsub(s, op, a, b):
        if isc(a) and isc(b):
            r = sg(a) + sg(b) if op == '+' else sg(a) - sg(b)
            if not -(1 << 31) <= r < (1 << 31): raise Undefined("arithmetic overflow")
            return r & M32
        A, Bb = B(a), B(b)
        if op == '+': s.assume(z3.And(z3.BVAddNoOverflow(A, Bb, True), z3.BVAddNoUnderflow(A, Bb))); return z3.simplify(A + Bb)
        s.assume(z3.And(z3.BVSubNoOverflow(A, Bb), z3.BVSubNoUnderflow(A, Bb, True))); return z3.simplify(A - Bb)
    def tick(s):
        s.steps += 1
        if s.steps > s.max_steps: raise Budget()
        if s.deadline is not None and (s.steps & 255) == 0:
            import time
            if time.time() > s.deadline: raise Budget()
    def order_open(s, operands):
        """X leaves the evaluation order of these sibling operands open: defined only if at most one of them can have an effect
        and, when one has, the others do not call at all (they could observe the effect)"""
        imp = [has_impure_call(o, s.impure, s.V) for o in operands]
        if sum(imp) > 1: raise Undefined("side-effecting calls in operand positions whose evaluation order is open")
        if sum(imp) == 1 and len(operands) > 1:
            for o, i in zip(operands, imp):
                if not i and (has_call(o) or reads_state(o)): raise Undefined("side-effecting call beside an operand that reads state, order open")
    def ev(s, e, L):
        s.tick()
        k = e[0]
        if k == 'num': return e[1] & M32
        if k == 'str':
            key = e[1]
            if key not in s.S: s.S[key] = pack_string(e[1])
            return ('str', key)
        if k == 'name':
            n = e[1]
            if n in L:
                if L[n] is None: raise Undefined("read of unassigned local " + n)
                return L[n]
            if n in s.V: return s.V[n]
            if n in s.G:
                if s.G[n] is None: raise Undefined("read of unassigned global " + n)
                return s.G[n]
            if n in s.A: return ('arr', n)
            raise Undefined("unknown name " + n)
        if k == 'neg': return s.addsub('-', 0, s.scalar(s.ev(e[1], L)))
        if k == 'not':
            v = s.scalar(s.ev(e[1], L)); s.boolean(v)
            return int(v == 0) if isc(v) else z3.simplify(z3.If(v == 0, B(1), B(0)))
        if k == 'bin':
            op = e[1]
            if op in ('and', 'or'):
                a = s.scalar(s.ev(e[2], L)); s.boolean(a)
                t = s.branch(a != 0 if not isc(a) else a != 0)
                if (op == 'and') == t:
                    b = s.scalar(s.ev(e[3], L)); s.boolean(b); return b
                return 0 if op == 'and' else 1
            s.order_open([e[2], e[3]])
            a = s.scalar(s.ev(e[2], L)); b = s.scalar(s.ev(e[3], L))
            if op in ('+', '-'): return s.addsub(op, a, b)
            if op not in ('=', '~='):
                s.addsub('-', a, b); s.addsub('-', b, a)       # comparison-difference overflow excluded, either direction
            if isc(a) and isc(b):
                return int({'=': a == b, '~=': a != b, '<': sg(a) < sg(b), '<=': sg(a) <= sg(b), '>': sg(a) > sg(b), '>=': sg(a) >= sg(b)}[op])
            A, Bb = B(a), B(b)
            c = z3.simplify({'=': A == Bb, '~=': A != Bb, '<': A < Bb, '<=': A <= Bb, '>': A > Bb, '>=': A >= Bb}[op])
            if z3.is_true(c): return 1
            if z3.is_false(c): return 0
            return z3.If(c, B(1), B(0))
        if k == 'sub':
            arr = s.ev(('name', e[1]), L); i = s.scalar(s.ev(e[2], L))
            cells = s.cells(arr)
            i = s.index(i, len(cells))
            if cells[i] is None: raise Undefined("read of unassigned array element")
            return cells[i]
        if k == 'call':
            s.order_open(e[2])
            return s.call(e[1], [s.ev(x, L) for x in e[2]], True)
        if k == 'syscall':
            s.order_open(e[2])
            return s.syscall(e[1], [s.ev(x, L) for x in e[2]])
        raise Undefined(k)
    def scalar(s, v):
        if isinstance(v, tuple): raise Undefined("array used as a value")
        return v
    def cells(s, ref):
        if not isinstance(ref, tuple): raise Undefined("subscript of a non-array")
        return s.A[ref[1]] if ref[0] == 'arr' else s.S[ref[1]]
    def index(s, i, n):
        if isc(i):
            if not 0 <= sg(i) < n: raise Undefined("subscript out of range")
            return i
        s.assume(z3.And(i >= 0, i < n))
        return s.pick(i, 0, n, "subscript")
    def syscall(s, n, a):
        a = [s.scalar(x) for x in a]
        if n == 0:
            if len(a) != 1: raise Undefined("exit arity")
            raise Exit(a[0])
        if n == 1:
            if len(a) != 2: raise Undefined("put arity")
            s.events.append(('out', a[0] & 255 if isc(a[0]) else z3.simplify(z3.Extract(7, 0, a[0])), a[1])); return 0
        if n == 2:
            if len(a) != 1: raise Undefined("get arity")
            s.events.append(('in', a[0])); v = s.inputs[s.nin] if s.nin < len(s.inputs) else 255; s.nin += 1
            return v if isc(v) else z3.ZeroExt(24, v)
        raise Undefined("system call number")
    def call(s, name, args, want):
        if name in s.V: return s.syscall(s.V[name], args)
        p = s.procs.get(name)
        if p is None or len(args) != len(p['formals']): raise Undefined("call of " + name)
        if want and not p['func']: raise Undefined("procedure used as a function")
        s.depth += 1
        if s.depth > s.MAXDEPTH: raise Budget()
        s.calls.append(name)
        L = {}
        for (k, n), a in zip(p['formals'], args):
            if k == 'val': L[n] = s.scalar(a)
            elif k == 'array':
                if not isinstance(a, tuple): raise Undefined("array formal bound to a value")
                L[n] = a
            else: raise Undefined("proc/func formals are not in the supported subset")
        for d in p['decls']:
            if d[0] == 'var': L[d[1]] = None
            else: L[d[1]] = s.const_local(d[2], L)
        try:
            s.ex(p['body'], L)
        except Ret as r:
            s.depth -= 1
            if not p['func']: raise Undefined("return in a procedure")
            return r.v
        s.depth -= 1
        if p['func']: raise Undefined("function ends without return")
        return 0
    def const_local(s, e, L):
        v = s.ev(e, {})
        if not isc(v): raise Undefined("non-constant val")
        return v
    def lookup_local(s, L, n):
        v = L[n]
        return v
    def ex(s, st, L):
        s.tick()
        k = st[0]
        if k == 'skip': return
        if k == 'stop': raise Exit(0)
        if k == 'return': raise Ret(s.scalar(s.ev(st[1], L)))
        if k == 'seq':
            for x in st[1]: s.ex(x, L)
            return
        if k == 'if':
            c = s.scalar(s.ev(st[1], L))
            s.ex(st[2] if s.branch(c != 0) else st[3], L); return
        if k == 'while':
            while True:
                c = s.scalar(s.ev(st[1], L))
                if not s.branch(c != 0): return
                s.ex(st[2], L)
        if k == 'callstmt':
            e = st[1]; s.order_open(e[2])
            if e[0] == 'syscall': s.syscall(e[1], [s.ev(x, L) for x in e[2]])
            else:
                if e[1] not in s.V and s.procs.get(e[1], {}).get('func'): raise Undefined("function called as a statement")
                s.call(e[1], [s.ev(x, L) for x in e[2]], False)
            return
        if k == 'ass':
            tgt = st[1]
            if tgt[0] == 'name':
                v = s.scalar(s.ev(st[2], L)); n = tgt[1]
                if n in L:
                    if isinstance(L[n], tuple): raise Undefined("assignment to an array name")
                    L[n] = v
                elif n in s.G: s.G[n] = v
                else: raise Undefined("assignment to " + n)
            elif tgt[0] == 'sub':
                s.order_open([tgt[2], st[2]])
                arr = s.ev(('name', tgt[1]), L)
                if not isinstance(arr, tuple) or arr[0] != 'arr': raise Undefined("assignment into a non-array")
                i = s.scalar(s.ev(tgt[2], L)); v = s.scalar(s.ev(st[2], L))
                cells = s.A[arr[1]]; i = s.index(i, len(cells)); cells[i] = v
            else: raise Undefined("assignment target")
            return
        raise Undefined(k)

def reads_state(n):
    """does the expression read a variable or array element (conservative: any name or subscript)"""
    if not isinstance(n, tuple): return False
    if n[0] in ('name', 'sub'): return True
    return any((isinstance(c, tuple) and reads_state(c)) or (isinstance(c, list) and any(reads_state(x) for x in c)) for c in n[1:])

def explore(src, sym_globals, inputs, max_paths=64, max_steps=20000, deadline=None):
    """all paths of the reference semantics: list of dict(pc, events, status, calls). status: 'ok' | 'undefined: ..' | 'budget'"""
    prog = parse(src)
    solver = z3.Solver(); solver.set('timeout', 20000)
    work = [[]]; results = []
    while work:
        if len(results) >= max_paths:
            results.append(dict(pc=None, events=None, status='budget: path limit', calls=None)); break
        dec = work.pop()
        if deadline is not None:
            import time
            if time.time() > deadline:
                results.append(dict(pc=None, events=None, status='budget: wall clock', calls=None)); break
        r = Run(prog, sym_globals, inputs, dec, solver, max_steps, deadline)
        try:
            if 'main' not in r.procs or r.procs['main']['func'] or r.procs['main']['formals']: raise Undefined("no procedure main()")
            r.call('main', [], False); ev = r.events + [('exit', 0)]; status = 'ok'
        except Exit as x: ev = r.events + [('exit', x.v)]; status = 'ok'
        except Ret: ev = None; status = 'undefined: return outside function'
        except Undefined as u: ev = None; status = 'undefined: ' + str(u)
        except Budget: ev = None; status = 'budget'
        except RecursionError: ev = None; status = 'budget'
        work.extend(r.pending)
        results.append(dict(pc=r.pc, events=ev, status=status, calls=r.calls, nin=r.nin))
    return results
