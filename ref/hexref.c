/* Transcribed from docs/PDFs/hexb.pdf (David May, "The Hex Architecture", 2014), pp. 6-10.
   Changes, all marked VERIF: I/O routed to extern event functions; main loop body split
   into ref_step(); exit value recorded from mem[sp+2]. */
#define true 1
#define false 0
#define i_ldam 0x0
#define i_ldbm 0x1
#define i_stam 0x2
#define i_ldac 0x3
#define i_ldbc 0x4
#define i_ldap 0x5
#define i_ldai 0x6
#define i_ldbi 0x7
#define i_stai 0x8
#define i_br 0x9
#define i_brz 0xA
#define i_brn 0xB
#define i_opr 0xD
#define i_pfix 0xE
#define i_nfix 0xF
#define o_brb 0x0
#define o_add 0x1
#define o_sub 0x2
#define o_svc 0x3

unsigned int mem[200000];
unsigned char *pmem = (unsigned char *) mem;
unsigned int pc;
unsigned int sp;
unsigned int areg;
unsigned int breg;
unsigned int oreg;
unsigned int inst;
unsigned int running;
unsigned int exitvalue; /* VERIF */

extern void ref_simout(unsigned int b, unsigned int s); /* VERIF: event */
extern unsigned int ref_simin(unsigned int s);          /* VERIF: event */

static void svc(void)
{ sp = mem[1];
  switch (areg)
  { case 0: running = false; exitvalue = mem[sp + 2]; /* VERIF */ break;
    case 1: ref_simout(mem[sp + 2], mem[sp + 3]); break;
    case 2: mem[sp + 1] = ref_simin(mem[sp + 2]) & 0xFF; break;
  }
}

void ref_step(void)
{ inst = pmem[pc];
  pc = pc + 1;
  oreg = oreg | (inst & 0xf);
  switch ((inst >> 4) & 0xf)
  {
    case i_ldam: areg = mem[oreg]; oreg = 0; break;
    case i_ldbm: breg = mem[oreg]; oreg = 0; break;
    case i_stam: mem[oreg] = areg; oreg = 0; break;
    case i_ldac: areg = oreg; oreg = 0; break;
    case i_ldbc: breg = oreg; oreg = 0; break;
    case i_ldap: areg = pc + oreg; oreg = 0; break;
    case i_ldai: areg = mem[areg + oreg]; oreg = 0; break;
    case i_ldbi: breg = mem[breg + oreg]; oreg = 0; break;
    case i_stai: mem[breg + oreg] = areg; oreg = 0; break;
    case i_br: pc = pc + oreg; oreg = 0; break;
    case i_brz: if (areg == 0) pc = pc + oreg; oreg = 0; break;
    case i_brn: if ((int)areg < 0) pc = pc + oreg; oreg = 0; break;
    case i_pfix: oreg = oreg << 4; break;
    case i_nfix: oreg = 0xFFFFFF00 | (oreg << 4); break;
    case i_opr:
      switch (oreg)
      { case o_brb: pc = breg; oreg = 0; break;
        case o_add: areg = areg + breg; oreg = 0; break;
        case o_sub: areg = areg - breg; oreg = 0; break;
        case o_svc: svc(); break;
      };
      oreg = 0; break;
  };
}
