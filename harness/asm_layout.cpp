// Harness TU for the hexasm layout/emission stage (C05, C17, C10, C11, C15). Programs are built from a
// descriptor with the real directive constructors, then go through the real CodeGen and emitBin.
#include <cassert>
#include <cstdint>
#include <sstream>
#include "hexasm.hpp"
using namespace hexasm;

static const char *NAMES[] = {"A", "B", "C", "D", "f", "g", "main", "BR", "lab0", "_start"};

extern "C" {
// kinds: 0 label, 1 DATA, 2 imm instruction, 3 relative label ref, 4 absolute label ref, 5 OPR, 6 FUNC, 7 PROC, 8 gap (Padding directive of arg bytes)
// tok[i]: hexasm::Token of the instruction (kinds 2..5: for 5 the OPR operand token); arg[i]: value or name id
// info: 6 ints per directive of the final program (incl. the trailing PADDING): token, byteOffset, size, value, operandIsLabel, isAssembled
__attribute__((noinline)) int l_run(int n, const int *kind, const int *tok, const int *arg, int *info, int emit, int text) {
  std::vector<std::unique_ptr<Directive>> program;
  for (int i = 0; i < n; i++) {
    switch (kind[i]) {
      case 0: program.push_back(std::make_unique<Label>(Token::IDENTIFIER, NAMES[arg[i]])); break;
      case 1: program.push_back(std::make_unique<Data>(Token::DATA, arg[i])); break;
      case 2: program.push_back(std::make_unique<InstrImm>(static_cast<Token>(tok[i]), arg[i])); break;
      case 3: program.push_back(std::make_unique<InstrLabel>(static_cast<Token>(tok[i]), NAMES[arg[i]], true)); break;
      case 4: program.push_back(std::make_unique<InstrLabel>(static_cast<Token>(tok[i]), NAMES[arg[i]], false)); break;
      case 5: program.push_back(std::make_unique<InstrOp>(Token::OPR, static_cast<Token>(tok[i]))); break;
      case 6: program.push_back(std::make_unique<Func>(Token::FUNC, NAMES[arg[i]])); break;
      case 7: program.push_back(std::make_unique<Proc>(Token::PROC, NAMES[arg[i]])); break;
      case 8: program.push_back(std::make_unique<Padding>(static_cast<unsigned>(arg[i]))); break;   // a gap of arg[i] bytes
    }
  }
  CodeGen cg(program);
  if (emit) cg.emitBin("out.bin");
  int k = 0;
  for (auto &d : program) {
    info[6*k+0] = static_cast<int>(d->getToken()); info[6*k+1] = d->getByteOffset(); info[6*k+2] = d->getSize();
    info[6*k+3] = d->getToken() == Token::PADDING ? 0 : d->getValue(); info[6*k+4] = d->operandIsLabel(); info[6*k+5] = d->isAssembled();
    k++;
  }
  return k;
}
}

#ifdef NATIVE_DRIVER
// Native driver: assembles text from stdin through the real Lexer/Parser/CodeGen/emitBin; prints
// "ok <hex of file>" + listing fields, or "error <what>".  Programs are separated by a line "----".
#include <fstream>
#include <cstdio>
static void one(const std::string &src) {
  try {
    Lexer lexer; Parser parser(lexer);
    lexer.loadBuffer(src);
    auto program = parser.parseProgram();
    CodeGen cg(program);
    cg.emitBin("native_out.bin");
    std::ifstream f("native_out.bin", std::ios::binary); std::stringstream ss; ss << f.rdbuf(); std::string b = ss.str();
    std::cout << "ok ";
    for (unsigned char c : b) { char t[3]; snprintf(t, 3, "%02x", c); std::cout << t; }
    std::cout << " |";
    for (auto &d : program) std::cout << " " << static_cast<int>(d->getToken()) << "," << d->getByteOffset() << "," << d->getSize() << "," << (d->getToken() == Token::PADDING ? 0 : d->getValue());
    std::cout << "\n";
  } catch (std::exception &e) { std::cout << "error " << e.what() << "\n"; }
}
int main() {
  std::string line, src;
  while (std::getline(std::cin, line)) {
    if (line == "----") { one(src); src.clear(); } else { src += line + "\n"; }
  }
  if (!src.empty()) one(src);
  std::remove("native_out.bin");
  return 0;
}
#endif
