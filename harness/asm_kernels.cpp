// Harness TU for the hexasm kernels (C04, C10 kernels). Compiled to IR (clang -O1) for irsym and
// natively (g++ -O2 -DNDEBUG) for engine validation and replay. Includes the repository's header as is.
#include <cassert>
#include <cstdint>
#include "hexasm.hpp"
using namespace hexasm;

extern "C" {
__attribute__((noinline)) int k_numNibbles(int v) { return hexasm::numNibbles(v); }
__attribute__((noinline)) int k_instrLen(int l, int b) { return hexasm::instrLen(l, b); }
__attribute__((noinline)) unsigned long k_immSize(int v) { InstrImm i(Token::LDAC, v); return i.getSize(); }

// Field access for the engine (no hand-computed offsets).
void *k_lexer_field(Lexer *lx, int k) {
  switch (k) { case 0: return &lx->lastToken; case 1: return &lx->value; case 2: return &lx->lastChar; }
  return nullptr;
}
unsigned long k_lexer_size() { return sizeof(Lexer); }

// C04: sign token + number -> parseInteger -> InstrImm -> CodeGen -> emitProgramBin.
// The Lexer object is raw storage: only lastToken/value are read by parseInteger, and
// Lexer::readToken is cut by the engine (natively: provided by the replay driver through text).
__attribute__((noinline)) unsigned long k_c04_emit(int mnemonic, Lexer *lx, std::ostream *os, int *valueOut) {
  Parser parser(*lx);
  int v = parser.parseInteger();
  *valueOut = v;
  std::vector<std::unique_ptr<Directive>> program;
  program.push_back(std::make_unique<InstrImm>(static_cast<Token>(mnemonic), v));
  unsigned long size = program.back()->getSize();
  CodeGen cg(program);
  cg.emitProgramBin(*os);
  return size;
}

// C10: Parser::parseDirective with the lexer cut to a token source owned by the engine.
void k_lexer_prepare(Lexer *lx) {
  new (&lx->identifier) std::string("id"); new (&lx->currentLine) std::string();
  lx->currentLineNumber = 0; lx->currentCharNumber = 0;
}
__attribute__((noinline)) int k_parse_directive(Lexer *lx, int *out) {
  Parser parser(*lx);
  auto d = parser.parseDirective();
  out[0] = static_cast<int>(d->getToken()); out[1] = static_cast<int>(d->getSize()); out[2] = d->operandIsLabel();
  return 1;
}

// Character-level lexer kernel (C04: decimal literals; C10: every byte string). The Lexer is built by its real constructor;
// `file` points at a stream object owned by the engine (std::istream::get(char&) and the stream state are modelled there).
Lexer *k_lexer_new() { return new Lexer(); }
void k_lexer_attach(Lexer *lx, std::istream *s) { lx->file.reset(s); lx->readChar(); }      // what loadBuffer/openFile do after opening
__attribute__((noinline)) int k_lexer_next(Lexer *lx) { return static_cast<int>(lx->getNextToken()); }
unsigned long k_lexer_ident(Lexer *lx, char *out, unsigned long cap) {
  const std::string &s = lx->getIdentifier(); unsigned long n = s.size() < cap ? s.size() : cap;
  for (unsigned long i = 0; i < n; i++) out[i] = s[i];
  return s.size();
}
// DATA word emission (C07 materialisation): one DATA directive with value d.
__attribute__((noinline)) void k_data_emit(int d, std::ostream *os) {
  std::vector<std::unique_ptr<Directive>> program;
  program.push_back(std::make_unique<Data>(Token::DATA, d));
  CodeGen cg(program);
  cg.emitProgramBin(*os);
}
}

#ifdef NATIVE_DRIVER
// Native replay/validation driver: reads lines "numNibbles v" | "instrLen l b" | "immSize v" |
// "asm <mnemonic> <literal>" and prints results; the asm form goes through the real Lexer (text).
#include <sstream>
int main() {
  std::string cmd;
  while (std::cin >> cmd) {
    if (cmd == "numNibbles") { int v; std::cin >> v; std::cout << k_numNibbles(v) << "\n"; }
    else if (cmd == "instrLen") { int l, b; std::cin >> l >> b; std::cout << k_instrLen(l, b) << "\n"; }
    else if (cmd == "immSize") { int v; std::cin >> v; std::cout << k_immSize(v) << "\n"; }
    else if (cmd == "asm") {
      std::string mn, lit; std::cin >> mn >> lit;
      try {
        Lexer lexer; Parser parser(lexer);
        lexer.loadBuffer(mn + " " + lit + "\n");
        auto program = parser.parseProgram();
        unsigned long size = program.back()->getSize();
        CodeGen cg(program);
        std::ostringstream ss; cg.emitProgramBin(ss);
        std::cout << size;
        for (unsigned char c : ss.str()) std::cout << " " << (unsigned)c;
        std::cout << "\n";
      } catch (std::exception &e) { std::cout << "exception " << e.what() << "\n"; }
    }
  }
  return 0;
}
#endif
