#define main xcmp_main
#include "xcmp.cpp"
#undef main
#include "hex.cpp"
