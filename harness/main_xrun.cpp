#define main xrun_main
#include "xrun.cpp"
#undef main
#include "hex.cpp"
