// Harness TU: the whole X compiler (Lexer, Parser, CreateSymbols, ConstProp, OptimiseExpr, CodeGen, LowerDirectives,
// OptimiseDirectives, hexasm::CodeGen, emitProgramBin + listing) on a source text delivered by an engine-owned stream.
// The sequence of stages is Driver::run's (EMIT_BINARY); the engine runs it with every heap/stack object indeterminate,
// so a value that no constructor or pass has written and that reaches a branch, an address or an emitted byte is reported (C11).
#include <cassert>
#include <sstream>
#include "hex.hpp"
#include "hexasm.hpp"
#include "xcmp.hpp"
using namespace xcmp;

static int xf_pipeline(Parser &parser, std::ostream *bin, std::ostream *listing);

extern "C" {
// token level: no character source; Lexer::readToken is replaced by the engine (an arbitrary token sequence)
__attribute__((noinline)) int xf_compile_tokens(std::ostream *bin, std::ostream *listing) {
  Lexer lexer; Parser parser(lexer);
  return xf_pipeline(parser, bin, listing);
}
void *xf_lexer_field(Lexer *lx, int k) {
  switch (k) { case 0: return &lx->identifier; case 1: return &lx->value; case 2: return &lx->string; case 3: return &lx->lastToken; }
  return nullptr;
}
__attribute__((noinline)) int xf_compile(std::istream *in, std::ostream *bin, std::ostream *listing) {
  Lexer lexer; Parser parser(lexer);
  struct Release { Lexer &l; ~Release() { (void)l.file.release(); } } guard{lexer};   // the stream belongs to the engine, also when an error unwinds
  lexer.file.reset(in); lexer.readChar();                 // what loadBuffer/openFile do after opening
  return xf_pipeline(parser, bin, listing);
}
}

static int xf_pipeline(Parser &parser, std::ostream *bin, std::ostream *listing) {
  auto tree = parser.parseProgram();
  SymbolTable symbolTable;
  CreateSymbols createSymbols(symbolTable); tree->accept(&createSymbols);
  ConstProp constProp(symbolTable); tree->accept(&constProp);
  OptimiseExpr optimiseExpr; tree->accept(&optimiseExpr);
  CodeGen codeGen(symbolTable); tree->accept(&codeGen);
  LowerDirectives lowerDirectives(symbolTable, codeGen);
  OptimiseDirectives optimiseDirectives(symbolTable, lowerDirectives.getCodeBuffer());
  hexasm::CodeGen asmCodeGen(optimiseDirectives.getInstrs());
  asmCodeGen.emitProgramBin(*bin);
  // listing fields (what emitProgramText prints from), without the text formatting
  int k = 0;
  for (auto &d : optimiseDirectives.getInstrs()) {
    int v[4] = {static_cast<int>(d->getToken()), static_cast<int>(d->getByteOffset()), static_cast<int>(d->getSize()),
                d->getToken() == hexasm::Token::PADDING ? 0 : d->getValue()};
    listing->write(reinterpret_cast<const char*>(v), sizeof v); k++;
  }
  return k;
}
