// Harness TU for xcmp kernels (C07 folding, C11 indeterminate members). Real node constructors, real visitor methods.
#include <cassert>
#include <sstream>
#include "hex.hpp"
#include "hexasm.hpp"
#include "xcmp.hpp"
using namespace xcmp;

extern "C" {
// ConstProp::visitPost(BinaryOpExpr&) on NumberExpr leaves built by the real constructors
__attribute__((noinline)) int xk_fold_bin(int op, unsigned a, unsigned b, int *isconst) {
  Location loc;
  auto L = std::make_unique<NumberExpr>(loc, a);
  auto R = std::make_unique<NumberExpr>(loc, b);
  SymbolTable st;
  ConstProp cp(st);
  cp.visitPost(*L); cp.visitPost(*R);
  BinaryOpExpr e(loc, static_cast<Token>(op), std::move(L), std::move(R));
  cp.visitPost(e);
  *isconst = e.isConst();
  return e.isConst() ? e.getValue() : 0;
}
__attribute__((noinline)) int xk_fold_un(int op, unsigned a, int *isconst) {
  Location loc;
  auto L = std::make_unique<NumberExpr>(loc, a);
  SymbolTable st;
  ConstProp cp(st);
  cp.visitPost(*L);
  UnaryOpExpr e(loc, static_cast<Token>(op), std::move(L));
  cp.visitPost(e);
  *isconst = e.isConst();
  return e.isConst() ? e.getValue() : 0;
}
// string packing: CodeBuffer::genString on a literal of n arbitrary characters; returns the DATA words it generates
__attribute__((noinline)) int xk_string(int n, const unsigned char *chars, unsigned *words) {
  SymbolTable st;
  CodeBuffer cb(st);
  std::string v(reinterpret_cast<const char*>(chars), n);
  cb.genString(Reg::A, v);
  int k = 0;
  for (auto &d : cb.getData()) {
    if (d->getToken() == hexasm::Token::DATA) words[k++] = d->getValue();
  }
  return k;
}
// val propagation: 'val v = <init>' then a use of v. constant != 0: initialiser is the number `value`;
// otherwise the initialiser is a reference to a global variable (not a constant).
__attribute__((noinline)) int xk_valprop(int constant, unsigned value, int *isconst) {
  Location loc;
  std::unique_ptr<Expr> init;
  SymbolTable st;
  ConstProp cp(st);
  cp.enterProgram();
  if (constant) { auto n = std::make_unique<NumberExpr>(loc, value); cp.visitPost(*n); init = std::move(n); }   // 1 or 2
  else init = std::make_unique<VarRefExpr>(loc, "g");
  ValDecl decl(loc, "v", std::move(init));
  st.insert(std::make_pair(std::string(""), std::string("v")),
            std::make_unique<Symbol>(SymbolType::VAL, &decl, "", "v"));
  if (constant != 2) cp.visitPost(decl);     // constant == 2: the use is visited before the declaration (forward reference)
  VarRefExpr use(loc, "v");
  cp.visitPost(use);
  *isconst = use.isConst();
  return use.isConst() ? use.getValue() : 0;
}
}
