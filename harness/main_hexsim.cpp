#define main hexsim_main
#include "hexsim.cpp"
#undef main
#include "hex.cpp"
