// Harness TU for hexsim (C02, C12, C15-S, C06 obligations). Includes the repository's headers as they are.
#include <new>
#include "hexsim.hpp"
#include "hexsimio.hpp"
#include "hex.cpp"
using hexsim::Processor;

extern "C" {
unsigned long s_size() { return sizeof(Processor); }
void *s_field(Processor *p, int k) {
  switch (k) {
    case 0: return &p->pc; case 1: return &p->areg; case 2: return &p->breg; case 3: return &p->oreg;
    case 4: return &p->instr; case 5: return &p->memory[0]; case 6: return &p->io; case 7: return &p->truncateInputs;
    case 8: return &p->running; case 9: return &p->tracing; case 10: return &p->exitCode; case 11: return &p->lastPC;
    case 12: return &p->cycles; case 13: return &p->maxCycles; case 14: return &p->instrEnum; case 15: return &p->debugInfo;
    case 16: return &p->debugInfoMap; case 17: return (void*)&p->out;
  }
  return nullptr;
}
unsigned long s_memwords() { return Processor::MEMORY_SIZE_WORDS; }
int s_run(Processor *p) { return p->run(); }
void s_syscall(Processor *p) { p->syscall(); }
void s_construct(void *mem, std::istream *in, std::ostream *out, unsigned long maxCycles) { new (mem) Processor(*in, *out, maxCycles); }
void s_load(Processor *p, const char *filename) { p->load(filename); }
const char *s_lookup(Processor *p) { return p->lookupSymbol(); }
void s_trace(Processor *p, unsigned instr, int e) { p->trace(instr, static_cast<hex::Instr>(e)); }
const char *s_instrstr(int e) { return hex::instrEnumToStr(static_cast<hex::Instr>(e)); }
// HexSimIO
unsigned long io_size() { return sizeof(hex::HexSimIO); }
void *io_field(hex::HexSimIO *io, int k) {
  switch (k) { case 0: return (void*)&io->in; case 1: return (void*)&io->out; case 2: return io->fileIO.data(); case 3: return io->connected.data(); }
  return nullptr;
}
unsigned long io_fstream_size() { return sizeof(std::fstream); }
void io_output(hex::HexSimIO *io, char v, int stream) { io->output(v, stream); }
char io_input(hex::HexSimIO *io, int stream) { return io->input(stream); }
}

#ifdef NATIVE_DRIVER
// Native driver: "step pc areg breg oreg memword0..k (idx val pairs) -- input bytes" -> executes Processor::run for
// exactly one instruction (maxCycles = cycles = 1) and prints the successor state. Used for engine
// validation (concrete vectors) and for replaying counterexamples.
#include <sstream>
int main() {
  std::string line;
  while (std::getline(std::cin, line)) {
    std::istringstream ls(line); std::string cmd; ls >> cmd;
    if (cmd == "runfile") {
      // load an image with the real loader, run it to completion on the given input bytes, print the full 32-bit exit value
      std::string path; ls >> path; std::string inbytes; int c; unsigned long maxc; ls >> maxc;
      while (ls >> c) inbytes.push_back((char)c);
      std::istringstream in(inbytes); std::ostringstream out;
      auto *p = new Processor(in, out, maxc);
      p->load(path.c_str());
      std::string exc; int rv = 0;
      try { rv = p->run(); } catch (std::exception &e) { exc = e.what(); }
      std::cout << (unsigned)rv << " " << (int)p->running << " out";
      for (unsigned char ch : out.str()) std::cout << " " << (unsigned)ch;
      if (!exc.empty()) std::cout << " exception " << exc;
      std::cout << "\n";
      delete p;
    } else
    if (cmd == "dirty") {
      // construct a Processor in storage with non-zero contents (what a heap or stack may hold) and report
      // a memory word outside any image and the value run() returns when the cycle limit ends the run at once
      unsigned w; ls >> w;
      std::istringstream in(""); std::ostringstream out;
      auto *p = new Processor(in, out, 1);     // run with MALLOC_PERTURB_ set: malloc hands out non-zero bytes
      unsigned mw = p->memory[w];
      p->cycles = 2;
      int rv = p->run();
      std::cout << mw << " " << rv << "\n";
      delete p;
    } else
    if (cmd == "step" || cmd == "stepn") {
      unsigned nsteps = 1; if (cmd == "stepn") ls >> nsteps;
      unsigned pc, a, b, o; int trunc; ls >> pc >> a >> b >> o >> trunc;
      std::string inbytes; std::vector<std::pair<unsigned, unsigned>> mem; std::vector<unsigned> watch;
      std::string tok;
      while (ls >> tok) {
        if (tok == "m") { unsigned i, v; ls >> i >> v; mem.push_back({i, v}); }
        else if (tok == "w") { unsigned i; ls >> i; watch.push_back(i); }
        else if (tok == "in") { int c; ls >> c; inbytes.push_back((char)c); }
      }
      std::istringstream in(inbytes); std::ostringstream out;
      auto *p = new Processor(in, out, nsteps);
      for (unsigned long i = 0; i < Processor::MEMORY_SIZE_WORDS; i++) p->memory[i] = 0;
      p->exitCode = 0;
      p->setTruncateInputs(trunc);
      for (auto &m : mem) p->memory[m.first] = m.second;
      p->pc = pc; p->areg = a; p->breg = b; p->oreg = o; p->cycles = 1;
      int rv = 0; std::string exc;
      try { rv = p->run(); } catch (std::exception &e) { exc = e.what(); }
      std::cout << p->pc << " " << p->areg << " " << p->breg << " " << p->oreg << " " << (int)p->running << " " << rv << " " << p->cycles;
      std::cout << " out";
      for (unsigned char c : out.str()) std::cout << " " << (unsigned)c;
      std::cout << " mem";
      for (auto w : watch) std::cout << " " << p->memory[w];
      if (!exc.empty()) std::cout << " exception " << exc;
      std::cout << "\n";
      delete p;
    }
  }
  return 0;
}
#endif
