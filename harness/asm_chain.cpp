// Harness TU for the termination certificate of the layout iteration (C05/C10): label references are put into an
// arbitrary encoded length before the real CodeGen constructor runs (checks/chainlib.py).
#include <cassert>
#include <cstdint>
#include <sstream>
#include "hexasm.hpp"
using namespace hexasm;

static const char *CNAMES[] = {"L0", "L1", "L2", "L3", "L4", "L5", "L6", "L7"};

extern "C" {
// kinds: 0 label (arg = name id), 3 relative / 4 absolute reference (arg = name id), 8 gap of arg bytes (Padding directive)
// len0[i] != 0: the reference starts with that encoded length instead of the constructor's 1 (arbitrary pre-state of the iteration)
// info: 4 ints per directive: byteOffset, size, value, isAssembled
__attribute__((noinline)) int c_run(int n, const int *kind, const int *tok, const int *arg, const int *len0, int *info) {
  std::vector<std::unique_ptr<Directive>> program;
  for (int i = 0; i < n; i++) {
    switch (kind[i]) {
      case 0: program.push_back(std::make_unique<Label>(Token::IDENTIFIER, CNAMES[arg[i]])); break;
      case 3: case 4: {
        auto r = std::make_unique<InstrLabel>(static_cast<Token>(tok[i]), CNAMES[arg[i]], kind[i] == 3);
        if (len0[i]) r->update(0, len0[i]);
        program.push_back(std::move(r)); break;
      }
      case 8: program.push_back(std::make_unique<Padding>(static_cast<unsigned>(arg[i]))); break;
    }
  }
  CodeGen cg(program);
  int k = 0;
  for (auto &d : program) {
    info[4*k+0] = d->getByteOffset(); info[4*k+1] = d->getSize();
    info[4*k+2] = d->getToken() == Token::PADDING ? 0 : d->getValue(); info[4*k+3] = d->isAssembled();
    k++;
  }
  return k;
}
}
