// M family: the real main() of hexasm.cpp under another name.
#define main hexasm_main
#include "hexasm.cpp"
#undef main
#include "hex.cpp"
