#!/bin/bash
# every seeded change (rounds 1-4) against the checks of the properties it could affect; rewrites seeded/RESULTS.txt
cd /verif
: > seeded/RESULTS.txt
run() { tools/seedrun.sh "$@" 2>&1 | grep "^SEED\|^INCONCLUSIVE" | cut -c1-300 >> seeded/RESULTS.txt; }
echo "--- all rounds ($(date -u +%F), /repo $(git -C /repo rev-parse --short HEAD), /verif $(git rev-parse --short HEAD))" >> seeded/RESULTS.txt
run s1-C01 C01 C07
run s1-C02 C02 C12
run s1-C03 C03 C16
run s1-C04 C04 C05
run s1-C05 C05 C10
run s1-C06 C06
run s1-C07 C07 C01
run s1-C08 C08 C01
run s1-C10 C10
run s1-C11 C11 C01
run s1-C12 C12
run s1-C13 C13
run s1-C14 C14
run s1-C15 C15
run s1-C16 C16
run s1-C17 C17 C05
run s2-C01 C01
run s2-C02 C02
run s2-C03 C03
run s2-C05 C05
run s2-C08 C08
run s3-C04 C04
run s3-C06 C13 C03
run s3-C07 C07 C01
run s3-C10 C10
run s3-C11 C11 C09
run s3-C12 C12
run s3-C13 C13
run s3-C14 C14 C10
run s3-C15 C15
run s3-C16 C16
run s3-C17 C17 C05
run s4-C09a C09 C11
run s4-C09b C09
run s4-C06 C03
run s4-C01 C01 C11
run s5-C02 C02
run s5-C05 C05
run s5-C08 C08 C01
run s5-C10 C10
run s5-C12 C12
run s5-C14 C14
run s5-C16 C16
run s5-C17 C17
echo DONE-ALL >> seeded/RESULTS.txt
