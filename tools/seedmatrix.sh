#!/bin/bash
# runs every seeded change against the checks of the properties it could affect; writes seeded/RESULTS.txt
cd /verif
: > seeded/RESULTS.txt
run() { tools/seedrun.sh "$@" 2>&1 | grep "^SEED" | cut -c1-260 >> seeded/RESULTS.txt; }
run s1-C01 C01 C07 C08
run s1-C02 C02 C12
run s1-C03 C03 C16
run s1-C04 C04 C05
run s1-C05 C05 C10
run s1-C06 C06 C13
run s1-C07 C07 C01
run s1-C08 C08 C01
run s1-C10 C10 C05
run s1-C11 C11 C01
run s1-C12 C12 C02
run s1-C13 C13 C06
run s1-C14 C14
run s1-C15 C15
run s1-C16 C16 C03
run s1-C17 C17 C05
echo DONE >> seeded/RESULTS.txt
