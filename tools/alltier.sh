#!/bin/bash
# usage: tools/alltier.sh <tier> <ids...> : run checks one after the other, log exit status and wall time
T="$1"; shift; cd /verif; mkdir -p build/logs
for c in "$@"; do
  s=$(date +%s); timeout ${LIMIT:-14400} ./run $c $T > build/logs/$c.$T.log 2>&1; rc=$?
  echo "$c $T exit=$rc wall=$(( $(date +%s) - s ))s viol=$(grep -c '^VIOLATION' build/logs/$c.$T.log) :: $(tail -1 build/logs/$c.$T.log | cut -c1-200)"
done
