#!/usr/bin/env python3
# Regenerates MANIFEST.json from the table below (kept valid at all times).
import json, os
V = os.path.dirname(os.path.dirname(os.path.abspath(__file__)))
TECH = "bounded symbolic execution of the clang-14 -O1 LLVM IR of the real code (own engine irsym) with z3 deciding every path obligation; cvc5 re-decides final queries; counterexamples replayed natively"
CHECKS = {
 'C04': dict(level='other', ref='4/C04',
   text="For each of the 12 immediate mnemonics, Parser::parseInteger + InstrImm + CodeGen + emitProgramBin are executed symbolically with the literal (32 bit) and its sign symbolic; z3 proves per path that the emitted bytes decode, by the ISA prefix rule, to the operand. All 2^32 values x 2 signs, no bound on the value.",
   note="Trusted: clang -O1 IR semantics as implemented by irsym, z3 (cross-checked by cvc5), stubs for ostream::put/write, operator new, rb-tree rebalancing; Lexer::readToken cut in the encoder harness and decided separately: the real Lexer on every string of 1..10 symbolic decimal digits yields NUMBER with the decimal value (values < 2^32; larger literals outside)."),
 'C02': dict(level='other', ref='4/C02',
   text="One iteration of hexsim::Processor::run (+syscall) from an arbitrary architectural state (registers, whole memory as SMT array, input byte symbolic) is compared by z3 with ref_step() of the hexb.pdf reference simulator executed by the same engine; inductive over run length. Extra obligations: HexSimIO stream routing with symbolic stream, image loader on symbolic files.",
   note="Trusted: irsym, z3/cvc5, transcription of hexb.pdf into ref/hexref.c, HexSimIO cut to events in the step harness, std stream members stubbed; property's own address-range assumptions."),
}
CHECKS['C12'] = dict(level='other', ref='4/C12',
   text="Three solver obligations giving the statement by induction over C02's step: real constructor + load() on raw storage with arbitrary contents (z3 asked whether a word outside the image can be non-zero; members still indeterminate are reported); the step run with tracing off and on (trace/traceSyscall executed, formatting stubbed) proved state-, exit- and I/O-equal per path pair; run() past the cycle limit must return a defined value.",
   note="Trusted: irsym, z3/cvc5; formatting callees (boost::format, ostream<<) modelled as side-effect free on simulator state; fstream constructors stubbed; ASLR/environment covered only through 'nothing indeterminate is read'.")
CHECKS['C16'] = dict(level='other', ref='4/C16',
   text="verilog/processor.sv, verilog/processor.v and synth/processor.v are verilated separately; the generated eval code is executed symbolically from equal arbitrary registers, arbitrary port inputs and arbitrary previous/new clock and reset levels; z3 proves all registers and outputs equal after settling and after the edge evaluation (sv==v, v==synth/v). Inductive step for all input sequences.",
   note="Trusted: Verilator 5.006 two-state semantics (X-propagation outside), irsym, z3/cvc5; path conditions of each model are proved to cover the input space before ite-summaries are compared.")
CHECKS['C03'] = dict(level='other', ref='4/C03',
   text="The C++ Verilator generates for hex.sv/processor.sv/memory.sv (CMake arguments) is executed symbolically: settle, then one rising clock from an arbitrary state (pc 21 bit, registers 32 bit, 2^19-word memory as SMT array); hexsim's step (decided against hexb.pdf in C02) runs from the related state; z3 proves registers equal, memory related, syscall request nets as specified, SVC leaving state to the testbench. One clock from an arbitrary related state satisfying a proved-preserved invariant: inductive.",
   note="Trusted: Verilator 5.006 two-state semantics, irsym, z3/cvc5, object graph wired by a generated function instead of the Verilated constructors; successor pc / LDAP result assumed inside the 800000-byte range both implementations provide; invariant oreg&15==0.")
LNOTE = "Trusted: irsym, z3/cvc5, the independent decoder (walks the source directives with the ISA prefix rule), stubs (fstream as byte sink, BST instead of red-black rebalancing, error constructors without text); programs built by the real directive constructors; shape bound N<=3 quick / N<=4 thorough plus boundary programs."
CHECKS['C05'] = dict(level='other', ref='4/C05',
   text="Every program of up to N directives over {label, DATA, imm, relative ref, absolute ref, OPR, FUNC} (modulo renaming; mnemonic classes rotated) plus boundary programs (distances across 16^k, chained references, DATA-absorbed size changes) runs through the real CodeGen/emitBin with all immediates and DATA words symbolic; z3 proves on each path that the independently decoded file has every reference landing on its label, aligned DATA, zero padding and the right header. Termination: fixed point within the step budget on every path plus a grow-only certificate (a reference started from an arbitrary encoded length never ends shorter, for every gap size; a failing certificate is inconclusive, not a violation). Bounded in program shape, unbounded in values.",
   note=LNOTE)
CHECKS['C17'] = dict(level='other', ref='4/C17',
   text="On the C05 runs z3 proves for every instruction and DATA directive that the offset, size and label operand the listing prints from equal what the independent decoder found in the emitted bytes.",
   note=LNOTE + " Text rendering by boost::format is outside.")
CHECKS['C10'] = dict(level='other', ref='4/C10',
   text="Bounded totality: every path of CodeGen/emitBin on the C05 shape set plus malformed shapes, of Parser::parseDirective on all token sequences with symbolic numbers, and of the arithmetic kernels on their whole argument range ends in an emitted image or a clean exception; UB, null/out-of-bounds access, indeterminate reads and step-budget exhaustion are violations. The character-level Lexer runs on every byte string of up to 3 (4 thorough) symbolic bytes; the grow-only termination certificate of the layout iteration is decided for every gap size. Longer inputs are outside.",
   note=LNOTE)
CHECKS['C11'] = dict(level='other', ref='4/C11',
   text="Symbolic memory-sanitizer argument: all heap/stack objects start indeterminate in the engine and any indeterminate value reaching an emitted byte, listing field, branch or address on any path of any shape (all immediates symbolic) is reported; kernels of xcmp with initialiser-less members are run from their real constructors, and the whole X compiler is executed by the engine on a program set (skeletons, generator programs, unusual accepted programs) with all host memory indeterminate, its image compared byte for byte with the native compiler's. Environment/ASLR dependence is covered only through this argument.",
   note=LNOTE)
CHECKS['C15'] = dict(level='translation_validation', ref='4/C15',
   text="Symbol tables emitted for every C05 shape are compared with the independently decoded layout; the loader's debug-section reader, lookupSymbol and trace()'s symbol+offset are executed on a simulator built by its real constructor, after an earlier trace call at an arbitrary address, with symbolic ascending offsets and symbolic lastPC, and z3 proves the reported symbol/offset; the arguments of trace() per executed instruction are proved equal to the executed byte, address and count; mnemonic strings checked against hexb.pdf.",
   note=LNOTE + " boost::format cut at operator% (fed values checked, rendering outside).")
CHECKS['C14'] = dict(level='other', ref='4/C14',
   text="The main() functions of hexasm, xcmp, xrun and hexsim are executed from their IR with C++ exception handling modelled, under every combination of argv shape and stage outcome (returns / throws hexutil::Error / throws std::runtime_error) with Processor::run's value symbolic: exit status 0 iff nothing failed, the -o name (default a.out) is the one handed to the emitter, nothing is written after a failure (hexasm's own rejections - unknown label, unaligned absolute reference, invalid OPR - run through the real CodeGen/emitBin with the file stream an event sink), xrun/hexsim return the program's exit value (proved by z3).",
   note="Trusted: irsym's EH model, the stage cuts (library stages reduced to their outcome), enumeration of argv shapes; diagnostic text and 8-bit status truncation outside.")
TVNOTE = "Trusted: irsym, z3/cvc5, the X reference interpreter ref/xref.py (written from xhexnotes.pdf, shares no code with xcmp), hexsim's step as ISA model (decided in C02), HexSimIO cut to events; the program space is enumerated (generator + skeletons + shipped programs), only data (inputs, designated globals) is symbolic; budgets 2000/4000 instructions, 64 paths, 60 s per program."
CHECKS['C01'] = dict(level='translation_validation', ref='4/C01',
   text="Per program: the binary emitted by the xcmp built from the working tree runs on the IR of hexsim::Processor::run with symbolic input bytes and symbolic 32-bit initial values of designated globals; the independent X reference interpreter runs the source on the same symbols; z3 proves for every pair of reference path and binary path equal outputs, input consumption and exit value. Programs: bounded-exhaustive expression generator x contexts, control-flow/recursion/array/string skeletons, shipped tests/x.",
   note=TVNOTE)
CHECKS['C07'] = dict(level='translation_validation', ref='4/C07',
   text="Compositional: ConstProp's folding of the ten binary and two unary operators on real AST nodes equals the reference operator for all 2^64 operand pairs (z3); val propagation yields the declared constant; constants materialise exactly (X literals through the whole compiler with every digit symbolic, C04, DATA emission, immediate/pool threshold programs, pairs of pool constants differing in each single bit); every operator/placement with variable and with constant operands is translation-validated against the reference for all values.",
   note=TVNOTE)
CHECKS['C08'] = dict(level='translation_validation', ref='4/C08',
   text="A monitor on the translation-validation runs checks every fetch, load and store made while the compiled program runs: word index below 200000, no store into a fetched word, stores only into DATA words or above the image, stack pointer never above its load-time value and restored when main returns; symbolic addresses are decided by z3.",
   note=TVNOTE)
CHECKS['C13'] = dict(level='other', ref='4/C13',
   text="hextb.cpp's own load() and run() execute on the Verilated model built by the real Vhex_pkg constructor chain with VL_RAND_RESET_I returning fresh symbols (every register, net and trigger bit) and all non-image memory one arbitrary SMT array; on every path through the reset window z3 proves memory equal to the loaded image for every word, no system call serviced, registers zero. From the next edge C03 applies.",
   note="Trusted: Verilator 5.006 output and two-state semantics, irsym, z3/cvc5, libverilated/pthread externals as no-ops, the 2^19-iteration memory reset loop cut to one arbitrary array; run() followed for the reset window only (maxCycles 4).")
CHECKS['C06'] = dict(level='translation_validation', ref='4/C06',
   text="By induction from C13 and C03 plus obligations decided here: hextb's load() and hexsim's load() agree on the image words of symbolic files; hextb's handleSyscall equals hexsim's syscall() for symbolic memory and call number and runs exactly once per SVC (run() followed around an SVC); hextb's main returns run()'s value; end-to-end runs of hextb's own run() on the Verilated RTL against hexsim's run() on the same xcmp images with symbolic input bytes.",
   note="Trusted: Verilator output/semantics, irsym, z3/cvc5, libverilated externals as no-ops, HexSimIO cut to (byte, stream) events on both sides (routing decided in C02), power-on registers zero in the end-to-end runs (independence is C13); n <= 3/16 image words for the loaders, <= 1500 instructions end to end.")
NA = {}
CHECKS['C09'] = dict(level='other', ref='13',
   text="Bounded totality of the whole X compiler executed by the engine (Lexer, Parser, CreateSymbols, ConstProp, OptimiseExpr, CodeGen, LowerDirectives, OptimiseDirectives, hexasm::CodeGen, emitProgramBin): every byte string of up to 2 (3 thorough) symbolic bytes; every token sequence of up to 5 (7) tokens from an arbitrary token source (symbolic token kinds, the parser's switches fork on them; symbolic numbers); every statement of up to 3 (5) tokens as body of main in a declaration context; families of ill-formed and unusual programs and token-level mutants. Every path ends in an image or in a std::exception before output; null/out-of-bounds access, indeterminate reads, signed overflow, foreign exceptions and budget exhaustion are findings, replayed on an ASan+UBSan build of the real xcmp.",
   note="Trusted: irsym, z3, models of std::istream::get/eof, libc classifiers, strtoul, boost::format (API level), operator new, rb-tree as BST; the stage sequence of Driver::run is written out in the harness (Driver::run itself: C14). Inputs longer than the bounds are outside; the engine's image is compared byte for byte with the native compiler's on every accepted program of the C11 set.")
ALL = [json.loads(l)['id'] for l in open(os.path.join(V, 'properties.jsonl'))]
PENDING = "check not built yet in this session (planned in DESIGN.md); not claimed until it exists"
checks = []
for pid in ALL:
    if pid in CHECKS:
        c = CHECKS[pid]
        checks.append({'property_id': pid, 'quick_cmd': f'./run {pid} quick', 'thorough_cmd': f'./run {pid} thorough',
                       'evidence_file': f'/verif/evidence/{pid}.json', 'replay_cmd_template': 'cat {path}', 'engine': 'irsym',
                       'level_claimed': {'category': c['level'], 'text': c['text'], 'design_ref': 'DESIGN.md section ' + c['ref']},
                       'level_note': c['note'], 'technique': TECH})
na = [{'property_id': p, 'reason': NA.get(p, PENDING)} for p in ALL if p not in CHECKS]
m = {'version': 1,
     'setup_cmd': 'true',
     'hooks': {'guard': 'HEX_VERIF', 'enable': 'no source hooks are needed: harness TUs include the repository headers with -fno-access-control',
               'baseline_off_cmd': 'cmake --build /repo/_build && ctest --test-dir /repo/_build -j8 --timeout 900', 'source_commits': [], 'add_only': True},
     'engines': [{'name': 'irsym', 'path': '/verif/irsym', 'serves_properties': sorted(CHECKS), 'kind_free_text': 'path-forking symbolic interpreter for clang-14 LLVM IR on top of z3 (python3-vt), cvc5 CLI cross-check'}],
     'checks': checks, 'not_applicable': na,
     'notes': 'All checks rebuild IR and native drivers from /repo working tree on every run (content-hash keyed build dirs under /verif/build). Exit 0 held / 1 violation / 2 inconclusive.'}
json.dump(m, open(os.path.join(V, 'MANIFEST.json'), 'w'), indent=1)
print("checks:", [c['property_id'] for c in checks], "not_applicable:", len(na))
