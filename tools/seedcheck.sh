#!/bin/bash
# usage: tools/seedcheck.sh <seed dir with patch.diff demo.sh meta.json> <name>
# Confirms a seeded change independently: applies it to a scratch worktree of /repo HEAD, builds, runs the unit tests
# (must pass), runs the demo on the changed build (must fail) and on a clean build (must pass). Scratch trees are removed.
set -u
SEED="$1"; NAME="$2"; S=/tmp/sv; mkdir -p $S
BASE=$S/base
if [ ! -x $BASE/_b0/tests/unit/UnitTests ] || [ "$(git -C /repo rev-parse HEAD)" != "$(cat $BASE/.head 2>/dev/null)" ]; then
  git -C /repo worktree remove --force $BASE 2>/dev/null; rm -rf $BASE
  git -C /repo worktree add -q $BASE HEAD || exit 3
  (cd $BASE && cmake -G Ninja -B _b0 -S . -DCMAKE_BUILD_TYPE=RelWithDebInfo >/dev/null && cmake --build _b0 >/dev/null) || { echo "base build failed"; exit 3; }
  git -C /repo rev-parse HEAD > $BASE/.head
fi
W=$S/$NAME
git -C /repo worktree remove --force $W 2>/dev/null; rm -rf $W
git -C /repo worktree add -q $W HEAD || exit 3
cd $W && git apply "$SEED/patch.diff" || { echo "RESULT $NAME patch-does-not-apply"; git -C /repo worktree remove --force $W; exit 1; }
(cmake -G Ninja -B _b -S . -DCMAKE_BUILD_TYPE=RelWithDebInfo >/dev/null && cmake --build _b >/dev/null 2>&1) || { echo "RESULT $NAME build-fails"; git -C /repo worktree remove --force $W; exit 1; }
UT=$(./_b/tests/unit/UnitTests 2>&1 | tail -2 | tr -d '\033' | grep -c "No errors detected")
mkdir -p $W/_seed && cp -r "$SEED"/* $W/_seed/ 2>/dev/null
(cd $W/_seed && timeout 600 bash ./demo.sh $W/_b >/dev/null 2>&1); D1=$?
rm -rf $BASE/_seed; mkdir -p $BASE/_seed && cp -r "$SEED"/* $BASE/_seed/
(cd $BASE/_seed && timeout 600 bash ./demo.sh $BASE/_b0 >/dev/null 2>&1); D0=$?; rm -rf $BASE/_seed
echo "RESULT $NAME unit_tests_pass=$UT demo_with_change_exit=$D1 demo_without_change_exit=$D0"
cd /; git -C /repo worktree remove --force $W
