#!/bin/bash
# usage: tools/seedrun.sh <seeded name> <check ids...> : apply /verif/seeded/<name>/patch.diff to /repo, run the checks (quick), undo.
N="$1"; shift
cd /verif
git -C /repo diff --quiet || { echo "/repo not clean"; exit 3; }
git -C /repo apply /verif/seeded/$N/patch.diff || { echo "patch does not apply"; exit 3; }
for c in "$@"; do
  out=$(timeout 1800 ./run $c quick 2>&1); rc=$?
  nv=$(echo "$out" | grep -c "^VIOLATION")
  echo "SEED $N CHECK $c exit=$rc violations=$nv :: $(echo "$out" | grep -A1 '^VIOLATION' | grep -v '^VIOLATION' | grep -v '^--' | head -2 | cut -c1-220 | tr '\n' '|')"
  [ $rc -eq 2 ] && echo "$out" | grep INCONCLUSIVE | head -2 | cut -c1-250
done
git -C /repo checkout -- .
