#!/bin/bash
# round 2 and 3 seeds against the checks of the properties they could affect; appends to seeded/RESULTS.txt
cd /verif
run() { tools/seedrun.sh "$@" 2>&1 | grep "^SEED\|^INCONCLUSIVE" | cut -c1-300 >> seeded/RESULTS.txt; }
echo "--- rounds 2 and 3 ($(date -u +%F))" >> seeded/RESULTS.txt
run s2-C01 C01
run s2-C02 C02
run s2-C03 C03
run s2-C05 C05
run s2-C08 C08
run s3-C04 C04 C10
run s3-C06 C13 C06 C03
run s3-C07 C07 C01
run s3-C10 C10 C05
run s3-C11 C11 C01
run s3-C12 C12
run s3-C13 C13 C06
run s3-C14 C14 C10
run s3-C15 C15
run s3-C16 C16
run s3-C17 C17 C05
echo DONE3 >> seeded/RESULTS.txt
