#!/usr/bin/env python3
# Records the builder's own verification in seeded/<name>/meta.json: the independent confirmation (tools/seedcheck.sh output
# lines "RESULT <name> ...", read from the file given as argv[1], optional) and the outcome of the checks run against the
# change (lines "SEED <name> CHECK <id> exit=.. violations=.. :: ..." of seeded/RESULTS.txt).
import json, os, re, sys
V = os.path.dirname(os.path.dirname(os.path.abspath(__file__)))
confirm = {}
if len(sys.argv) > 1:
    for l in open(sys.argv[1]):
        m = re.match(r'RESULT (\S+) (.*)', l)
        if m: confirm[m.group(1)] = m.group(2).strip()
runs = {}
for l in open(os.path.join(V, 'seeded', 'RESULTS.txt')):
    m = re.match(r'SEED (\S+) CHECK (\S+) exit=(\d+) violations=(\d+) :: ?(.*)', l)
    if m: runs.setdefault(m.group(1), {})[m.group(2)] = {'check': m.group(2), 'exit': int(m.group(3)), 'violations': int(m.group(4)), 'first': m.group(5)[:240]}
    m = re.match(r'INCONCLUSIVE: (.*)', l)
    if m and runs:
        last = list(runs)[-1]; lastc = list(runs[last])[-1]
        runs[last][lastc].setdefault('inconclusive', m.group(1)[:240])
for name in sorted(os.listdir(os.path.join(V, 'seeded'))):
    p = os.path.join(V, 'seeded', name, 'meta.json')
    if not os.path.isfile(p): continue
    meta = json.load(open(p))
    meta['seed'] = name
    meta.setdefault('breaks_property', name.split('-')[1])
    if name in confirm:
        meta['confirmed_by_builder'] = {'how': 'tools/seedcheck.sh: fresh worktree of /repo HEAD, patch applied, cmake build, UnitTests pass, demo.sh fails on the changed build and passes on a clean build',
                                        'result': confirm[name]}
    if name in runs:
        meta['checks_run_by_builder'] = {'how': 'tools/seedrun.sh: git -C /repo apply patch.diff; ./run <check> quick; git -C /repo checkout -- .', 'results': list(runs[name].values())}
    json.dump(meta, open(p, 'w'), indent=1)
    print(name, 'confirmed' if 'confirmed_by_builder' in meta else 'NOT-CONFIRMED', [(r['check'], r['exit']) for r in meta.get('checks_run_by_builder', {}).get('results', [])])
