#!/bin/bash
# usage: tools/seedround6.sh <ID>... : takes over the round-6 sub-agent deliverables /tmp/seed/R6-<ID>/_seed as seeded/s6-<ID>,
# confirms each independently (tools/seedcheck.sh) and runs the property's quick check against it (tools/seedrun.sh).
cd /verif
for id in "$@"; do
  src=/tmp/seed/R6-$id/_seed
  [ -f $src/patch.diff ] && [ -f $src/demo.sh ] || { echo "no deliverables for $id"; continue; }
  rm -rf seeded/s6-$id; mkdir -p seeded/s6-$id; cp -r $src/* seeded/s6-$id/
  tools/seedcheck.sh /verif/seeded/s6-$id s6-$id 2>&1 | grep RESULT | tee -a seeded/CONFIRM.txt
done
for id in "$@"; do
  [ -f seeded/s6-$id/patch.diff ] || continue
  tools/seedrun.sh s6-$id $id 2>&1 | tee -a seeded/RESULTS.txt
done
